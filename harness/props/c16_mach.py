"""C16 extension C16_mach - machine-integer reading of the index-generic kernels.

For random small networks and each of the four index dtypes (int32, int64, uint32, uint64) the network is
encoded with the REAL NumPy dtype (`ds_to_np`, or the library's own `from_array` decoder), the raw machine
values (as unsigned integers) go to the Lean driver, which runs the machine-level sweeps / trace of
`lean/PfVerif/Model/C16_mach.lean` on them (`mach.*`) next to the `Nat` models on the decoded arrays (`nat.*`).

* `mach == nat` on every case is the statement of the refinement theorems (`sweepDown_of_machine`, … in
  `lean/PfVerif/Props/C16_mach.lean`) on concrete data; the driver also reports that the hypotheses hold (`wf`,
  `hyp`) and that Lean's `enc` / `dec` agree with NumPy's encoding of the dtype (`enc_ok`, `dec_ok`).
* the real kernels `core.fillnodata_upstream`, `streams.accuflux`, `streams.accuflux_ds`, `core._trace` /
  `core.path` of /repo are executed on that dtype and compared with `mach.*`.
* the index arithmetic sites are evaluated by NumPy scalar arithmetic of that dtype (`np.uint32(a) - np.uint32(b)`
  wraps, `np.int64(a) - np.int64(b)` does not) and by the real functions (`dem._local_d4`, `upscale.subidx_2_idx`,
  `upscale.in_d8`, `core._d8_idx`, the `from_array` store) and compared with the Lean BitVec functions - on small
  rasters and on rasters at the capacity of the dtype (scalars only, nothing is allocated).

* the same sites are also compiled by Numba in a worker process (PF_C16M_JIT=0 switches this off)
  (`dem._local_d4`, `upscale.subidx_2_idx`, `upscale.in_d8` of /repo and one-line probes `a - b`, `a // b`,
  `abs(int(a) - int(b))`, `abs(np.int64(a) - np.int64(b))`), result TYPES and values are compared with the Lean model
  of Numba's scalar typing (`numbaScalar`, `nbr64`, `row64`, `absDiffJit`, `localD4N`).

`spec` failure = the four dtypes do not return the same values / an index site is not exact for a dtype (the
property fails on this input); `model` failure = implementation (or NumPy's machine arithmetic) != Lean model.

`./check --replay` hands a replay description to `props/c16.py` first, which reads `world` / `op` / `args` as one of
its own catalogue tasks: descriptions therefore carry a small valid catalogue task and keep the real case under "x"."""
import random
import warnings

import numpy as np
from common import gen_raster_net, gen_forest, ds_to_np, canon_idx, ints, topo_of, net_features, max_path_len, exc_class

OPS = ["core.fillnodata_upstream", "streams.accuflux", "streams.accuflux_ds", "core._trace", "core.path",
       "core.idxs_seq", "core.main_upstream", "core_d8.from_array", "dem._local_d4", "upscale.subidx_2_idx",
       "upscale.in_d8", "core._d8_idx", "index arithmetic (NumPy scalars)"]
RULE = ("C16 extension: random loop-free networks (DEM-derived D8 rasters <= 56 cells with missing cells, vector "
        "forests <= 40 nodes) x the four index dtypes: sweeps on the implementation's own cell order (sort / walk) with "
        "integer fields incl. nodata, traces along downstream and main-upstream arrays (missing values inside) with "
        "masks and length limits; arithmetic sites on small rasters and on rasters at the capacity of each dtype, in the "
        "interpreter (NumPy scalars) and compiled by Numba (result types and values). "
        "non-trivial = >= 2 valid cells, >= 1 confluence, path length >= 2 (sweeps / traces); in-raster operands "
        "(arithmetic); distinct = SHA-1 of the case")

DT = [("int32", np.int32, 32, 1), ("int64", np.int64, 64, 1), ("uint32", np.uint32, 32, 0), ("uint64", np.uint64, 64, 0)]
UNS = {4: np.uint32, 8: np.uint64}
CAP = {"int32": 2 ** 31 - 1, "uint32": 2 ** 32 - 2, "int64": 2 ** 63 - 1, "uint64": 2 ** 64 - 2}
_COMPAT = []


def compat(x):
    """wrap the real case description `x` so that props/c16.py can process it as a replay (module docstring)"""
    if not _COMPAT:
        import catalogue
        rng = random.Random(20260929)
        w = catalogue.gen_world(rng, "quick", cls="vector")
        _COMPAT.append((w, catalogue.OPS["rank"]["gen"](rng, w)))
    w, args = _COMPAT[0]
    return {"op": "rank", "args": args, "world": w, "ext": "c16_mach", "x": x}


def raw(a):
    """the machine values of an index array as unsigned integers"""
    a = np.ascontiguousarray(a)
    return [int(v) for v in a.view(UNS[a.dtype.itemsize]).ravel().tolist()]


def raw1(v):
    return raw(np.array([v]))[0]


def mv_like_flwdir(dtype):
    """`Flwdir.__init__`: self._mv = core._mv; np.uint32(self._mv) / np.uint64(self._mv) for the unsigned dtypes"""
    from pyflwdir import core
    mv = core._mv
    if dtype == np.uint32:
        mv = np.uint32(mv)
    if dtype == np.uint64:
        mv = np.uint64(mv)
    return mv


def call(fn):
    try:
        with warnings.catch_warnings():
            warnings.simplefilter("ignore")
            with np.errstate(over="ignore"):
                return "ok", fn()
    except Exception as e:  # noqa: BLE001 - an exception of the implementation is an observation
        return "exc", exc_class(e) + ":" + str(e)[:80]


def drv_err(ans):
    for a in ans:
        if "__err__" in a:
            return [{"kind": "model", "what": "driver error " + a["__err__"]}]
    return None


# ------------------------------------------------------------------------------------------------
# networks
# ------------------------------------------------------------------------------------------------
def gen_net(rng, tier):
    if rng.random() < 0.7:
        ds, shape, fam = gen_raster_net(rng, max_cells=56 if tier == "quick" else 200)
        return ds, list(shape), fam
    n = rng.randint(3, 40 if tier == "quick" else 120)
    return gen_forest(rng, n, p_nodata=rng.choice([0.0, 0.2, 0.4]), fanin_bias=rng.choice([0.0, 0.5])), [n], "vector"


def encode(ds, shape, fam, dtype, via_from_array):
    """idxs_ds of the dtype: `ds_to_np`, or - for true D8 rasters - the library's own decoder
    `core_d8.from_array(d8, dtype=dtype)` applied to the D8 raster of the network"""
    from pyflwdir import core_d8
    a = ds_to_np(ds, dtype)
    if via_from_array and fam == "dem":
        d8 = core_d8.to_array(ds_to_np(ds, np.int64), tuple(shape), mv=np.intp(-1))
        b, _pits, _n = core_d8.from_array(d8, dtype=dtype)
        return b, "from_array"
    return a, "ds_to_np"


def build(x, dtype):
    """(idxs_ds, mv, seq) for one dtype from the case description"""
    from pyflwdir.flwdir import Flwdir
    ds_np, how = encode(x["ds"], x["shape"], x["fam"], dtype, x["via_from_array"])
    flw = Flwdir(idxs_ds=ds_np.copy())
    if x["order"] == "walk":
        flw.order_cells("walk")
    seq = flw.idxs_seq
    return ds_np, flw._mv, seq, how


# ------------------------------------------------------------------------------------------------
# 1. sweeps
# ------------------------------------------------------------------------------------------------
def case_sweep(ctx, x, nontrivial=True):
    from pyflwdir import core, streams
    ds, n = x["ds"], len(x["ds"])
    data = np.array(x["data"], dtype=np.int64)
    nodata = x["nodata"]
    reqs, impls = [], []
    for name, dtype, w, sg in DT:
        ds_np, mv, seq, how = build(x, dtype)
        ctx.count("m:encode:" + how)
        im = {"dtype": name, "mv": int(mv), "mv_ok": type(mv) is type(mv_like_flwdir(dtype)) and int(mv) == int(mv_like_flwdir(dtype)),
              "seq_dtype_ok": seq.dtype == np.dtype(dtype), "ds_dtype_ok": ds_np.dtype == np.dtype(dtype)}
        for key, fn in (("fill", lambda: core.fillnodata_upstream(ds_np, seq, data, nodata)),
                        ("accu", lambda: streams.accuflux(ds_np, seq, data, nodata)),
                        ("accuds", lambda: streams.accuflux_ds(ds_np, seq, data, nodata))):
            st, out = call(fn)
            im[key] = ints(out) if st == "ok" else "exc:" + str(out)
        im["seq"] = canon_idx(seq, n)
        impls.append(im)
        reqs.append(("c16m_sweep", {"w": w, "signed": sg, "n": n, "ds": raw(ds_np), "seq": raw(seq), "data": x["data"],
                                    "nodata": nodata, "abs_ds": ds, "abs_seq": im["seq"]}))

    def judge(ans):
        e = drv_err(ans)
        if e:
            return e
        fs = []
        ref = impls[1]           # int64 = intp, the type of the library's own tests
        for im, a in zip(impls, ans):
            dt = im["dtype"]
            if not (im["mv_ok"] and im["seq_dtype_ok"] and im["ds_dtype_ok"]) or [im["mv"]] != a["mv.val"]:
                fs.append({"kind": "spec", "what": f"{dt}: sentinel / index dtype not carried through (object's _mv = {im['mv']}, "
                           f"Lean {a['mv.val']}, as in Flwdir.__init__: {im['mv_ok']}, seq dtype: {im['seq_dtype_ok']}, "
                           f"idxs_ds dtype: {im['ds_dtype_ok']})"})
            if a["wf"] != [1] or a["enc_ok"] != [1] or a["dec_ok"] != [1]:
                fs.append({"kind": "model", "what": f"{dt}: NumPy's encoding of the network differs from Lean's enc/dec "
                           f"(wf {a['wf']}, enc {a['enc_ok']}, dec {a['dec_ok']})"})
                continue
            if a["topo"] != [1]:
                fs.append({"kind": "spec", "what": f"{dt}: cell order handed to the sweeps is not downstream-first (C03 hypothesis)"})
            for key in ("fill", "accu", "accuds"):
                if a["hyp"] == [1] and a["mach." + key] != a["nat." + key]:
                    fs.append({"kind": "model", "what": f"{dt} {key}: machine-level sweep != Nat sweep although the hypotheses of the "
                               "refinement theorem hold", "mach": a["mach." + key], "nat": a["nat." + key]})
                if im[key] != ref[key]:
                    fs.append({"kind": "spec", "what": f"{key}: result with index dtype {dt} differs from int64", "impl": im[key], "int64": ref[key]})
                elif im[key] != a["mach." + key]:
                    fs.append({"kind": "model", "what": f"{dt} {key}: implementation != machine-level Lean model", "impl": im[key],
                               "model": a["mach." + key]})
        return fs

    ctx.add(compat({"kind": "sweep", **x}), reqs, judge, nontrivial=nontrivial, key={"kind": "sweep", **x})


def gen_sweep(ctx, rng, ds, shape, fam):
    n = len(ds)
    nodata = rng.choice([-9999, -1, 0])
    pool = [nodata] * rng.choice([0, 2, 6]) + list(range(-3, 12))
    data = [rng.choice(pool) for _ in range(n)]
    x = {"ds": ds, "shape": shape, "fam": fam, "via_from_array": rng.random() < 0.5, "order": rng.choice(["sort", "walk"]),
         "data": data, "nodata": nodata}
    feat = net_features(ds)
    ctx.count("m:sweep:" + fam + (":mv-inside" if feat["valid"] < n else ":full"))
    case_sweep(ctx, x, nontrivial=feat["valid"] >= 2 and feat["confluences"] >= 1 and max_path_len(ds) >= 2)


# ------------------------------------------------------------------------------------------------
# 2. traces
# ------------------------------------------------------------------------------------------------
def case_trace(ctx, x, nontrivial=True):
    from pyflwdir import core, streams
    ds, n = x["ds"], len(x["ds"])
    mask = None if x["mask"] is None else np.array(x["mask"], dtype=bool)
    ml = x["maxlen"]
    reqs, impls = [], []
    for name, dtype, w, sg in DT:
        ds_np, mv, seq, _how = build(x, dtype)
        if x["nxt"] == "down":
            nxt = ds_np
        else:   # main upstream cells: the missing value sits at every headwater and outside the network
            upa = streams.accuflux(ds_np, seq, np.array(x["area"], dtype=np.float64), -9999.0)
            nxt = core.main_upstream(ds_np, upa, mv=mv)
        im = {"dtype": name, "nxt": canon_idx(nxt, n), "nxt_dtype_ok": nxt.dtype == np.dtype(dtype), "paths": []}
        starts = np.array(x["starts"], dtype=dtype)
        for k in range(starts.size):
            st, out = call(lambda: core._trace(starts[k], nxt, mask=mask, max_length=ml, mv=mv))
            if st == "ok":
                p, d = out
                im["paths"].append({"raw": raw(p), "path": canon_idx(p, n), "dist": float(d), "dtype_ok": p.dtype == np.dtype(dtype)})
            else:
                im["paths"].append({"exc": out})
        if x["use_path"]:
            st, out = call(lambda: core.path(starts, nxt, mask=mask, max_length=ml, mv=mv))
            im["path_fn"] = ([canon_idx(p, n) for p in out[0]], [float(d) for d in out[1]]) if st == "ok" else "exc:" + str(out)
        impls.append(im)
        for i0 in x["starts"]:
            reqs.append(("c16m_trace", {"w": w, "signed": sg, "n": n, "nxt": raw(nxt), "idx0": i0, "fuel": n + 2,
                                        "mask": None if mask is None else [int(b) for b in x["mask"]],
                                        "maxlen": ml, "abs_nxt": im["nxt"]}))
    ns = len(x["starts"])

    def judge(ans):
        e = drv_err(ans)
        if e:
            return e
        fs = []
        ref = impls[1]
        for k, im in enumerate(impls):
            dt = im["dtype"]
            if not im["nxt_dtype_ok"]:
                fs.append({"kind": "spec", "what": f"{dt}: main_upstream does not keep the index dtype"})
            if im["nxt"] != ref["nxt"]:
                fs.append({"kind": "spec", "what": f"main upstream cells with index dtype {dt} differ from int64", "impl": im["nxt"], "int64": ref["nxt"]})
            for s in range(ns):
                a = ans[k * ns + s]
                p, pr = im["paths"][s], ref["paths"][s]
                if a["wf"] != [1] or a["enc_ok"] != [1]:
                    fs.append({"kind": "model", "what": f"{dt}: NumPy's encoding of the array differs from Lean's enc (wf {a['wf']}, enc {a['enc_ok']})"})
                    continue
                if a["mach.ok"] != [1] or a["nat.ok"] != [1]:
                    fs.append({"kind": "spec", "what": f"{dt}: the trace does not end within n+2 steps on a loop-free network"})
                    continue
                if a["mach.path.dec"] != a["nat.path"] or a["mach.dist"] != a["nat.dist"]:
                    fs.append({"kind": "model", "what": f"{dt}: machine-level trace != Nat trace (refinement theorem)", "mach": a["mach.path.dec"], "nat": a["nat.path"]})
                if "exc" in p:
                    fs.append({"kind": "spec", "what": f"{dt}: _trace raised {p['exc']} on a valid start cell"})
                    continue
                if "exc" not in pr and (p["path"] != pr["path"] or p["dist"] != pr["dist"]):
                    fs.append({"kind": "spec", "what": f"_trace with index dtype {dt} differs from int64", "impl": p["path"], "int64": pr["path"]})
                elif p["raw"] != a["mach.path"] or p["dist"] != float(a["mach.dist"][0]):
                    fs.append({"kind": "model", "what": f"{dt}: _trace != machine-level Lean trace (raw machine values compared)",
                               "impl": p["raw"], "model": a["mach.path"], "dist": [p["dist"], a["mach.dist"]]})
                if not p["dtype_ok"]:
                    fs.append({"kind": "spec", "what": f"{dt}: _trace does not return indices of the index dtype"})
            if x["use_path"]:
                want = ([p.get("path") for p in im["paths"]], [p.get("dist") for p in im["paths"]])
                if im["path_fn"] != want:
                    fs.append({"kind": "spec", "what": f"{dt}: core.path differs from _trace per start cell", "impl": im["path_fn"]})
        return fs

    ctx.add(compat({"kind": "trace", **x}), reqs, judge, nontrivial=nontrivial, key={"kind": "trace", **x})


def gen_trace(ctx, rng, ds, shape, fam):
    n = len(ds)
    valid = [i for i in range(n) if ds[i] != n]
    nxt = rng.choice(["down", "down", "up"])
    mask = None
    if rng.random() < 0.4:
        p = rng.choice([0.1, 0.3])
        mask = [rng.random() < p for _ in range(n)]
    ml = rng.choice([None, None, 0, 1, 2, 3, 5])
    loc = list(range(1, n + 1))
    rng.shuffle(loc)
    x = {"ds": ds, "shape": shape, "fam": fam, "via_from_array": rng.random() < 0.5, "order": rng.choice(["sort", "walk"]),
         "nxt": nxt, "mask": mask, "maxlen": ml, "area": [float(v) for v in loc],
         "starts": [rng.choice(valid) for _ in range(rng.randint(1, 3))], "use_path": rng.random() < 0.3}
    ctx.count(f"m:trace:{nxt}:{'mask' if mask else 'nomask'}:{'len' if ml is not None else 'nolen'}")
    case_trace(ctx, x, nontrivial=net_features(ds)["valid"] >= 2 and max_path_len(ds) >= 2)


# ------------------------------------------------------------------------------------------------
# 3. arithmetic sites
# ------------------------------------------------------------------------------------------------
JIT_SCRIPT = r'''
import json, sys, warnings
sys.path.insert(0, sys.argv[1])
import numpy as np
from numba import njit
from pyflwdir import dem, upscale
warnings.simplefilter("ignore")

@njit
def sub(a, b):
    return a - b
@njit
def nbr(a, ncol, dr, dc):
    return a + dr * ncol + dc
@njit
def fdiv(a, b):
    return a // b
@njit
def fmod(a, b):
    return a % b
@njit
def absdiff_int(a, b):
    return abs(int(a) - int(b))
@njit
def absdiff_i64(a, b):
    return abs(np.int64(a) - np.int64(b))

from numba import typeof
def rty(fn, *args):
    # the return type Numba inferred for this call (the Python value is an unboxed int and does not show it)
    return str(fn.overloads[tuple(typeof(a) for a in args)].signature.return_type)
def val(v):
    return int(v)
def guard(fn):
    try:
        return fn()
    except Exception as e:
        return "exc:" + type(e).__name__
cases = json.load(sys.stdin)
out = []
for x in cases:
    T = getattr(np, x["dtype"])
    A, B, ncol = T(x["a"]), T(x["b"]), x["ncol"]
    r = {}
    v = sub(A, B); r["sub_TT"] = [rty(sub, A, B), val(v)]
    v = nbr(A, ncol, x["dr"], x["dc"]); r["nbr"] = [rty(nbr, A, ncol, x["dr"], x["dc"]), val(v)]
    v = fdiv(A, np.int64(ncol)); r["fdiv"] = [rty(fdiv, A, np.int64(ncol)), val(v)]
    v = fmod(A, np.int64(ncol)); r["fmod"] = [rty(fmod, A, np.int64(ncol)), val(v)]
    v = absdiff_int(A, B); r["absdiff_int"] = [rty(absdiff_int, A, B), val(v)]
    v = absdiff_i64(A, B); r["absdiff_i64"] = [rty(absdiff_i64, A, B), val(v)]
    r["d4"] = guard(lambda: (lambda q: [q.dtype.name, [int(z) for z in q]])(dem._local_d4(A, B, ncol)))
    r["subidx"] = guard(lambda: val(upscale.subidx_2_idx(A, ncol, x["cellsize"], -(-ncol // x["cellsize"]))))
    r["ind8"] = guard(lambda: bool(upscale.in_d8(A, B, ncol)))
    out.append(r)
json.dump(out, sys.stdout)
'''


def jit_probe(xs):
    """evaluate the sites of the given arithmetic cases under the JIT in a worker process (NUMBA_DISABLE_JIT unset)"""
    import json
    import os
    import subprocess
    import sys
    from common import REPO
    env = dict(os.environ)
    env.pop("NUMBA_DISABLE_JIT", None)
    p = subprocess.run([sys.executable, "-c", JIT_SCRIPT, REPO], input=json.dumps(xs).encode(), stdout=subprocess.PIPE,
                       stderr=subprocess.PIPE, env=env, timeout=900)
    if p.returncode != 0:
        raise RuntimeError("JIT probe failed: " + p.stderr.decode(errors="replace")[-600:])
    return json.loads(p.stdout.decode())


NB = {(-1, 0): lambda A, nc: A - nc, (0, -1): lambda A, nc: A - 1, (1, 0): lambda A, nc: A + nc, (0, 1): lambda A, nc: A + 1,
      (-1, -1): lambda A, nc: A - nc - 1, (1, -1): lambda A, nc: A + nc - 1, (1, 1): lambda A, nc: A + nc + 1,
      (-1, 1): lambda A, nc: A - nc + 1, (0, 0): lambda A, nc: A}     # the forms of dem._local_d4


def sval(v):
    """numeric value of a NumPy integer scalar"""
    return int(v)


def case_arith(ctx, x, jit=None):
    from pyflwdir import core, dem, upscale
    name = x["dtype"]
    _, dtype, w, sg = next(d for d in DT if d[0] == name)
    n, ncol, nrow = x["nrow"] * x["ncol"], x["ncol"], x["nrow"]
    a, b, dr, dc = x["a"], x["b"], x["dr"], x["dc"]
    A, B = dtype(a), dtype(b)
    mvT = mv_like_flwdir(dtype) if not sg else dtype(-1)
    r, c = divmod(a, ncol)
    tgt_in = 0 <= r + dr < nrow and 0 <= c + dc < ncol
    j = (r + dr) * ncol + (c + dc)
    cs, cncol = x["cellsize"], -(-ncol // x["cellsize"])
    ob = {}

    def put(key, fn):
        st, out = call(fn)
        ob[key] = out if st == "ok" else "exc:" + str(out)

    put("sub_T", lambda: raw1(A - B))
    put("sub_T.type", lambda: type(A - B) is dtype)
    put("sub_64", lambda: sval(np.int64(A) - np.int64(B)))
    put("absdiff_64", lambda: sval(abs(np.int64(A) - np.int64(B))))        # the code of dig_4connectivity
    put("absdiff_T", lambda: sval(abs(A - B)))                             # the form before b088814
    put("row_T", lambda: sval(A // ncol))
    put("col_T", lambda: sval(A % ncol))
    put("row_64", lambda: sval(np.int64(A) // np.int64(ncol)))
    put("col_64", lambda: sval(np.int64(A) % np.int64(ncol)))
    put("nbr_T", lambda: sval(NB[(dr, dc)](A, ncol)))
    put("nbr_64", lambda: sval(NB[(dr, dc)](np.int64(A), ncol)))
    put("lt", lambda: bool(A < B))
    put("lt.mv", lambda: bool(mvT < A))
    put("to_i64.a", lambda: sval(np.int64(A)))
    put("to_i64.mv", lambda: sval(np.int64(mvT)))
    put("unify", lambda: {np.int64: 1, np.float64: 0}.get(type(A // np.int64(ncol)), 2))

    def store():
        arr = np.full(2, core._mv, dtype=dtype)        # the allocation of the from_array decoders
        arr[0] = c + r * ncol                             # idxs_ds[idx0] = idx_ds
        return raw(arr)
    put("store", store)
    # private helpers are not API: a tree that has renamed / inlined one of them is not comparable at that site (the
    # API-level comparison of the four dtypes in props/c16.py still covers the operation); counted, never a failure
    absent = set()
    for key, mod, attr in (("subidx", upscale, "subidx_2_idx"), ("ind8", upscale, "in_d8"), ("d4", dem, "_local_d4"), ("d8idx", core, "_d8_idx")):
        if not hasattr(mod, attr):
            absent.add(key)
            ctx.count("m:arith:site-helper-absent-in-this-tree:" + attr)
    if "subidx" not in absent:
        put("subidx", lambda: sval(upscale.subidx_2_idx(A, ncol, cs, cncol)))
    if "ind8" not in absent:
        put("ind8", lambda: bool(upscale.in_d8(A, B, ncol)))
    if "d4" not in absent:
        put("d4", lambda: [sval(v) for v in dem._local_d4(A, B, ncol)])
    if "d8idx" not in absent:
        put("d8idx", lambda: ints(core._d8_idx(A, (nrow, ncol))))
    req = ("c16m_arith", {"w": w, "signed": sg, "n": n, "a": raw1(A), "b": raw1(B), "ncol": ncol, "dr": dr, "dc": dc,
                          "subncol": ncol, "cellsize": cs, "cncol": cncol, "r": r, "c": c})

    def judge(ans):
        e = drv_err(ans)
        if e:
            return e
        L = ans[0]
        fs = []

        def model(key, lean, what=None):
            if ob[key] != lean:
                fs.append({"kind": "model", "what": f"{name}: {what or key}: NumPy / implementation {ob[key]!r} != Lean BitVec model {lean!r}"})

        def spec(ok, what):
            if not ok:
                fs.append({"kind": "spec", "what": f"{name}: {what}"})

        if L["cap"] != [1] or L["dec.a"] != [a] or L["dec.b"] != [b] or L["val.a"] != [a]:
            return [{"kind": "model", "what": f"{name}: operands are not decoded as cells by the Lean model ({L['cap']}, {L['dec.a']}, {L['dec.b']})"}]
        model("sub_T", L["sub_T"][0], "a - b at the index type")
        if ob["sub_T.type"] is not True:
            fs.append({"kind": "model", "what": f"{name}: a - b of two NumPy index scalars leaves the index type (regime P is not what NumPy does)"})
        model("sub_64", L["sub_64"][0], "np.int64(a) - np.int64(b)")
        model("absdiff_64", L["absdiff_64"][0], "abs(np.int64(a) - np.int64(b))")
        spec(ob["absdiff_64"] == abs(a - b), f"dig_4connectivity: abs(np.int64(idx0) - np.int64(idx_ds)) = {ob['absdiff_64']} is not |{a} - {b}|")
        model("absdiff_T", L["absdiff_T"][0], "abs(a - b) at the index type (unrepaired form)")
        model("row_T", L["row_T"][0], "idx // ncol")
        model("col_T", L["col_T"][0], "idx % ncol")
        model("row_64", L["row_64"][0], "np.int64(idx) // ncol")
        model("col_64", L["col_64"][0], "np.int64(idx) % ncol")
        spec(ob["row_T"] == a // ncol and ob["col_T"] == a % ncol, f"idx // ncol, idx % ncol = ({ob['row_T']}, {ob['col_T']}) is not the row / column of cell {a}")
        model("nbr_T", L["nbr_T"][0], f"neighbour ({dr},{dc}) at the index type")
        model("nbr_64", L["nbr_64"][0], f"neighbour ({dr},{dc}) in int64")
        if tgt_in:
            spec(ob["nbr_T"] == j and ob["nbr_64"] == j, f"neighbour ({dr},{dc}) of cell {a}: {ob['nbr_T']} / {ob['nbr_64']} instead of {j}")
        model("lt", bool(L["lt"][0]), "a < b")
        model("lt.mv", bool(L["lt.mv"][0]), "mv < a")
        spec(ob["lt"] == (a < b), "order of two cell indices")
        model("to_i64.a", L["to_i64.a"][0], "np.int64(a)")
        model("to_i64.mv", L["to_i64.mv"][0], "np.int64(mv)")
        model("unify", L["unify"][0], "NumPy type of index // np.int64 (1 = int64, 0 = float64)")
        if jit is not None:
            def jm(key, lean, what):
                if jit[key] != lean:
                    fs.append({"kind": "model", "what": f"{name} under the JIT: {what}: Numba {jit[key]!r} != Lean model of Numba's typing {lean!r}"})
            tn = lambda wv: ("int" if wv[1] else "uint") + str(wv[0])
            jm("sub_TT", [tn(L["numba.TT"]), L["sub_64"][0] if sg else L["absdiff_jit"][0]], "a - b, two index scalars")
            jm("nbr", [tn(L["numba.T64"]), L["nbr_64"][0]], f"a + {dr}*ncol + {dc}")
            jm("fdiv", [tn(L["numba.T64"]), L["row_64"][0]], "idx // int64(ncol)")
            jm("fmod", [tn(L["numba.T64"]), L["col_64"][0]], "idx % int64(ncol)")
            jm("absdiff_int", [tn(L["numba.TT"]), L["absdiff_jit"][0]], "abs(int(a) - int(b)) (form before 23a01f9)")
            jm("absdiff_i64", ["int64", L["absdiff_64"][0]], "abs(np.int64(a) - np.int64(b)) (dig_4connectivity)")
            spec(jit["absdiff_i64"][1] == abs(a - b), f"JIT: abs(np.int64(idx0) - np.int64(idx_ds)) = {jit['absdiff_i64'][1]} is not |{a} - {b}|")
            if "subidx" not in absent:
                jm("subidx", L["subidx_N"][0], "subidx_2_idx")
            if "ind8" not in absent:
                jm("ind8", bool(L["ind8"][0]), "in_d8")
            if "d4" in absent:
                pass
            elif name == "uint64" and a + ncol + 1 >= 2 ** 53:
                # Numba compares the int64 list entries with the uint64 idx_ds through float64 (mixed-sign `==`):
                # exact only below 2^53 cells, far beyond any raster that can be allocated - outside the model's claim
                ctx.count("m:arith:jit-d4-uint64-beyond-2^53" + (":differs" if jit["d4"] != ["int64", L["d4_N"]] else ":same"))
            elif isinstance(jit["d4"], str):
                if L["d4_N.ok"] != [0]:
                    fs.append({"kind": "model", "what": f"{name} under the JIT: _local_d4 raised {jit['d4']}; Lean {L['d4_N']}"})
                spec(x["kind2"] not in ("diag", "pit"), f"JIT: _local_d4 raised {jit['d4']} for a diagonal step / pit inside the raster")
            elif L["d4_N.ok"] != [1] or jit["d4"] != ["int64", L["d4_N"]]:
                fs.append({"kind": "model", "what": f"{name} under the JIT: _local_d4 = {jit['d4']} != Lean int64 {L['d4_N']} (ok {L['d4_N.ok']})"})
        if ob["store"] != [L["store"][0], L["store.mv"][0]] or L["lin64"] != [a]:
            fs.append({"kind": "model", "what": f"{name}: from_array store: NumPy {ob['store']} != Lean {[L['store'][0], L['store.mv'][0]]} (lin64 {L['lin64']})"})
        spec(ob["store"] == [a, 2 ** w - 1], f"from_array store of cell {a} / of core._mv gives {ob['store']}")
        if "subidx" not in absent:
            model("subidx", L["subidx_P"][0], "subidx_2_idx")
            spec(ob["subidx"] == (r // cs) * cncol + c // cs, f"subidx_2_idx({a}, {ncol}, {cs}, {cncol}) = {ob['subidx']}")
        if L["subidx_N"] != L["subidx_P"]:
            fs.append({"kind": "model", "what": f"{name}: subidx_2_idx differs between the two typing regimes in Lean"})
        rb, cb = divmod(b, ncol)
        if "ind8" not in absent:
            model("ind8", bool(L["ind8"][0]), "in_d8")
            spec(ob["ind8"] == (abs(rb - r) <= 1 and abs(cb - c) <= 1), f"in_d8({a}, {b}, {ncol}) = {ob['ind8']}")
        # _local_d4: ValueError of list.index <-> none
        if "d4" in absent:
            pass
        elif isinstance(ob["d4"], str):
            if not ob["d4"].startswith("exc:ValueError") or L["d4_T.ok"] != [0]:
                fs.append({"kind": "model", "what": f"{name}: _local_d4({a}, {b}, {ncol}) raised {ob['d4']}; Lean: ok={L['d4_T.ok']} {L['d4_T']}"})
            spec(not (x["kind2"] in ("diag", "pit")), f"_local_d4 raised {ob['d4']} for a diagonal step / pit inside the raster")
        else:
            if L["d4_T.ok"] != [1] or ob["d4"] != L["d4_T"]:
                fs.append({"kind": "model", "what": f"{name}: _local_d4({a}, {b}, {ncol}) = {ob['d4']} != Lean {L['d4_T']} (ok {L['d4_T.ok']})"})
            if x["kind2"] == "diag":
                want = [(r + dr) * ncol + c, r * ncol + c + dc]
                want = want if dr == dc else want[::-1]
                spec(ob["d4"] == want, f"_local_d4({a}, {b}, {ncol}) = {ob['d4']} instead of the D4 cells {want}")
                if w < 64 or sg:
                    if L["d4_N.ok"] != [1] or L["d4_N"] != want:
                        fs.append({"kind": "model", "what": f"{name}: _local_d4 after unification to int64 (Lean) = {L['d4_N']} instead of {want}"})
        if "d8idx" in ob and tgt_in and (dr, dc) != (0, 0):
            spec(isinstance(ob["d8idx"], list) and j in ob["d8idx"], f"_d8_idx({a}) = {ob['d8idx']} misses the neighbour {j}")
        return fs

    ctx.add(compat({"kind": "arith", **x}), [req], judge, nontrivial=x["kind2"] != "far", key={"kind": "arith", **x})


def gen_arith(ctx, rng, name):
    cap = CAP[name]
    big = rng.random() < 0.5
    if big:
        # a raster at the capacity of the dtype; conversions to int64 are exact for every array NumPy can allocate
        # (n < 2^63), which is what the int64 sites assume
        lim = min(cap, 2 ** 63 - 1)
        ncol = rng.choice([2, 3, 7, 1000, 46341, 65536, 2 ** 20 + 1])
        nrow = max(2, (lim - rng.randint(1, 50)) // ncol)
    else:
        nrow, ncol = rng.randint(2, 9), rng.randint(2, 9)
    kind2 = rng.choice(["diag", "diag", "pit", "nbr", "far", "far"])
    if kind2 in ("diag", "pit", "nbr"):
        # an interior cell near one of the corners / anywhere, and one of its neighbours
        r = rng.choice([0, 1, nrow - 2, nrow - 1, rng.randrange(nrow)])
        c = rng.choice([0, 1, ncol - 2, ncol - 1, rng.randrange(ncol)])
        r, c = min(max(r, 0), nrow - 1), min(max(c, 0), ncol - 1)
        if kind2 == "diag":
            cand = [(p, q) for p in (-1, 1) for q in (-1, 1) if 0 <= r + p < nrow and 0 <= c + q < ncol]
        elif kind2 == "pit":
            cand = [(0, 0)]
            r, c = min(max(r, 1), max(nrow - 2, 1)), min(max(c, 1), max(ncol - 2, 1))
            if not (1 <= r < nrow - 1 and 1 <= c < ncol - 1):
                kind2 = "far"
        else:
            cand = [(p, q) for p in (-1, 0, 1) for q in (-1, 0, 1) if (p or q) and p * q == 0 and 0 <= r + p < nrow and 0 <= c + q < ncol]
        if kind2 != "far":
            dr, dc = rng.choice(cand)
            a, b = r * ncol + c, (r + dr) * ncol + c + dc
    if kind2 == "far":
        a, b = rng.randrange(nrow * ncol), rng.randrange(nrow * ncol)
        dr, dc = rng.choice([(p, q) for p in (-1, 0, 1) for q in (-1, 0, 1)])
        if rng.random() < 0.3:
            a, b = sorted((a, b))   # a < b: the unrepaired unsigned difference wraps
    x = {"dtype": name, "nrow": nrow, "ncol": ncol, "a": a, "b": b, "dr": dr, "dc": dc, "cellsize": rng.randint(1, 5), "kind2": kind2}
    ctx.count(f"m:arith:{name}:{'cap' if big else 'small'}:{kind2}")
    return x


# ------------------------------------------------------------------------------------------------
def run(ctx):
    rng = ctx.rng
    import os
    use_jit = os.environ.get("PF_C16M_JIT", "1") != "0"
    if getattr(ctx, "replay", None):
        d = (ctx.replay.get("failure", {}) or {}).get("desc") or ((ctx.replay.get("model_mismatches") or [{}])[0].get("desc"))
        if d and d.get("ext") == "c16_mach":
            x = dict(d["x"])
            kind = x.pop("kind")
            if kind == "arith":
                case_arith(ctx, x, jit=jit_probe([x])[0] if use_jit else None)
            else:
                {"sweep": case_sweep, "trace": case_trace}[kind](ctx, x)
            ctx.flush()
    nnet = (36 if ctx.tier == "quick" else 500) * ctx.escalate
    for _ in range(nnet):
        ds, shape, fam = gen_net(rng, ctx.tier)
        gen_sweep(ctx, rng, ds, shape, fam)
        gen_trace(ctx, rng, ds, shape, fam)
        if rng.random() < 0.5:
            gen_trace(ctx, rng, ds, shape, fam)
        if len(ctx.cases) > 300:
            ctx.flush()
    nar = (70 if ctx.tier == "quick" else 1200) * ctx.escalate
    xs = [gen_arith(ctx, rng, name) for _ in range(nar) for name, _dt, _w, _sg in DT]
    njit = min(len(xs), 160 if ctx.tier == "quick" and ctx.escalate == 1 else 600) if use_jit else 0
    jr = jit_probe(xs[:njit]) if njit else []
    ctx.count("m:arith:jit-probed", njit)
    for k, x in enumerate(xs):
        case_arith(ctx, x, jit=jr[k] if k < njit else None)
        if len(ctx.cases) > 400:
            ctx.flush()
