"""C13 extension `C13_bounds` - the core kernels never index outside an array.

The kernels of pyflwdir/core.py (rank, upstream_count, idxs_seq, main_upstream, _trace / path, _window,
pit_indices, loop_indices) are executed in-process, interpreted, on index-recording arrays: `RecArray`
(a subclass of harness/worker.py's GuardedArray) logs every scalar index used to read or write an
array, the arrays created inside the kernels (np.full, ...) are wrapped through a subclass of worker.py's
NpProxy installed on pyflwdir.core for the duration of one call and named after the variable they are
assigned to. The Lean driver runs the access-logging variant of the kernel's model
(lean/PfVerif/Model/C13_bounds.lean; Props/C13_bounds.lean proves that it returns the ordinary model and
that every logged index is in bounds on the documented domain) and returns the logged indices per array.

 spec  failure: the implementation indexed an array outside its bounds (index >= size, or a negative index
                that is not a literal of the source line - the missing value -1 used as an index wraps
                silently), raised on a valid input, or modified an input array
 model failure: the set of cells touched per ARGUMENT array differs from the model's log (order and multiplicity
                are not compared; arrays the kernel allocates itself are bounds-checked but not compared - a
                rewrite may add or rename work arrays), the results differ, or the model's own log is out of bounds on a
                well-formed input (would contradict the theorems)
"""
import linecache
import os
import re
import signal
import sys

import numpy as np

import worker
from common import (gen_raster_net, gen_forest, gen_funcgraph, canon_idx, ints, ds_to_np, exc_class)

OPS = ["core.rank", "core.upstream_count", "core.idxs_seq", "core.main_upstream", "core._trace", "core.path",
       "core._window", "core.pit_indices", "core.loop_indices"]
RULE = ("C13_bounds: random networks <= 56 cells (quick) / <= 160 (thorough): D8 rasters, forests and arbitrary "
        "functional graphs (loops), with cells outside the network; index dtypes intp / int32 / uint32 with their "
        "own missing value; start cells anywhere in range (cells outside the network included); masks none / sparse / "
        "dense, stream orders random small integers, window half widths 0..4, max_length none / 0..n. "
        "non-trivial = >= 2 cells in the network and (a cell outside the network or a loop or a confluence)")

# ---------------------------------------------------------------------------------------------------------
# recording arrays
# ---------------------------------------------------------------------------------------------------------
REC = []     # (array name, index)
OOB = []     # descriptions


_FOR = re.compile(r"\s*for\s.+\sin\s")


def _rec(arr, idx, kind):
    items = idx if isinstance(idx, tuple) else (idx,)
    for ax, it in enumerate(items):
        if isinstance(it, (int, np.integer)) and not isinstance(it, (bool, np.bool_)):
            v = int(it)
            size = arr.shape[ax] if ax < arr.ndim else 0
            name = getattr(arr, "_pfname", None) or "?"
            if v == size and kind == "read" and len(items) == 1:
                # `for x in arr:` walks an ndarray subclass through __getitem__(0), (1), ... until IndexError:
                # the probe at `size` is the iterator's end test, not an access of the source
                fr = sys._getframe(2)
                if _FOR.match(linecache.getline(fr.f_code.co_filename, fr.f_lineno)):
                    continue
            if arr.ndim == 1 and len(items) == 1:
                REC.append((name, v))
            if v < 0 or v >= size:
                fr = sys._getframe(2)
                fn, ln = fr.f_code.co_filename, fr.f_lineno
                line = linecache.getline(fn, ln)
                if v < 0 and worker._literal_neg(line, v):     # literal negative index such as path[-1]
                    continue
                OOB.append(f"{name}[{v}] ({kind}, axis {ax}, size {size}) at {os.path.basename(fn)}:{ln}: {line.strip()[:80]}")


class RecArray(worker.GuardedArray):
    def __array_finalize__(self, obj):
        self._pfname = getattr(obj, "_pfname", None)

    def __getitem__(self, idx):
        _rec(self, idx, "read")
        return np.ndarray.__getitem__(self, idx)

    def __setitem__(self, idx, val):
        _rec(self, idx, "write")
        np.ndarray.__setitem__(self, idx, val)


_ASSIGN = re.compile(r"\s*(\w+)\s*=\s*np\.")


class RecProxy(worker.NpProxy):
    """worker.NpProxy, but the arrays created inside the kernels record their accesses and carry the name of
    the variable they are assigned to"""

    def __getattr__(self, name):
        v = getattr(object.__getattribute__(self, "_real"), name)
        if name in worker.NpProxy._wrap and callable(v):
            def f(*a, **k):
                r = v(*a, **k)
                if isinstance(r, np.ndarray) and r.ndim >= 1:
                    fr = sys._getframe(1)
                    m = _ASSIGN.match(linecache.getline(fr.f_code.co_filename, fr.f_lineno))
                    out = np.asarray(r).view(RecArray)
                    out._pfname = m.group(1) if m else "?"
                    return out
                return r
            return f
        return v


def named(a, name):
    out = np.array(a, copy=True).view(RecArray)
    out._pfname = name
    return out


IMPL2MODEL = {"ds": "ds", "mask": "mask", "n_up": "nup", "uparea": "uparea", "upa_main": "upa_main",
              "idxs_us_main": "us_main", "us_main": "us_main", "ranks": "ranks", "strord": "strord", "nxt": "nxt",
              "idxs_seq": "seq_out", "idxs": "win"}


def recorded(fn, *args, **kw):
    """run one kernel under the recorder; returns (status, result, touched: model-name -> set, oob list)"""
    import pyflwdir.core as core
    del REC[:]
    del OOB[:]
    real = core.np
    core.np = RecProxy(np)
    signal.alarm(60)
    try:
        try:
            st, res = "ok", fn(*args, **kw)
        except Exception as e:  # noqa: BLE001 - an exception on a valid input is an observation
            st, res = "exc", f"{exc_class(e)}: {str(e)[:120]}"
    finally:
        signal.alarm(0)
        core.np = real
    touched = {}
    for name, v in REC:
        touched.setdefault(IMPL2MODEL.get(name, "impl:" + name), set()).add(v)
    return st, res, touched, list(OOB)


def self_test():
    """the recorder must see a missing value used as an index, an index >= size, and must not flag a literal"""
    a = named(np.arange(5), "t")
    mvi = np.intp(-1)
    del REC[:], OOB[:]
    _ = a[mvi]
    assert len(OOB) == 1 and ("t", -1) in REC, OOB
    try:
        _ = a[np.intp(5)]
    except IndexError:
        pass
    assert len(OOB) == 2, OOB
    _ = a[-1]
    _ = a[3]
    a[2] = 7
    assert len(OOB) == 2 and ("t", 3) in REC and ("t", 2) in REC, OOB
    del REC[:], OOB[:]


# ---------------------------------------------------------------------------------------------------------
# worlds
# ---------------------------------------------------------------------------------------------------------
def gen_net(rng, tier):
    mx = 56 if tier == "quick" else 160
    u = rng.random()
    if u < 0.5:
        ds, shape, fam = gen_raster_net(rng, max_cells=mx, loopfree=rng.random() < 0.5)
    elif u < 0.75:
        n = rng.randint(2, mx)
        ds, fam = gen_forest(rng, n, p_nodata=rng.choice([0.0, 0.2, 0.5])), "vforest"
    else:
        n = rng.randint(2, mx)
        ds, fam = gen_funcgraph(rng, n, p_nodata=rng.choice([0.0, 0.2, 0.5])), "vfunc"
    return list(ds), fam


def has_loop(nxt):
    """some walk along nxt never reaches a fixed point / the missing value"""
    n = len(nxt)
    for i in range(n):
        j, k = i, 0
        while nxt[j] != j and nxt[j] != n and k <= n:
            j, k = nxt[j], k + 1
        if k > n:
            return True
    return False


def wf(ds):
    n = len(ds)
    return all(0 <= d <= n and (d == n or ds[d] != n) for d in ds)


def cmp_logs(ans, touched, arrays, argnames):
    """index SETS per ARGUMENT array; returns list of differences.

    Arrays the kernel allocates itself (work arrays, the result) are the implementation's own business: a rewrite may
    add, drop or rename them at will, so their logs are not part of the tie (they are still bounds-checked: every
    recorded access of every array, argument or not, goes through `_rec`)."""
    diffs = []
    for a in arrays:
        if a not in argnames:
            continue
        m = set(ans.get("log." + a, []))
        i = touched.get(a, set())
        if m != i:
            diffs.append(f"{a}: only model {sorted(m - i)[:8]}, only implementation {sorted(i - m)[:8]}")
    return diffs


def make_judge(kernel, arrays, st, res_canon, touched, oob, mutated, wellformed, argnames=(), expect_res=True):
    def judge(answers):
        ans = answers[0]
        fs = []
        if oob:
            fs.append({"kind": "spec", "what": f"{kernel}: array indexed outside its bounds: " + "; ".join(oob[:4])})
        if st != "ok":
            fs.append({"kind": "spec", "what": f"{kernel}: valid call raised {res_canon}"})
        if mutated:
            fs.append({"kind": "spec", "what": f"{kernel}: modified its input array(s) {mutated}"})
        if "__err__" in ans:
            fs.append({"kind": "model", "what": f"{kernel}: model driver error {ans['__err__']}"})
            return fs
        if wellformed and ans["inb"] != [1]:
            fs.append({"kind": "model", "what": f"{kernel}: the model's access log is out of bounds on a well-formed input (contradicts the theorem)"})
        if st == "ok":
            if expect_res and ans["model"] != res_canon:
                fs.append({"kind": "model", "what": f"{kernel}: result differs: model {ans['model'][:12]} implementation {res_canon[:12]}"})
            d = cmp_logs(ans, touched, arrays, argnames)
            if d and not oob:
                fs.append({"kind": "model", "what": f"{kernel}: touched cells differ: " + " | ".join(d[:3])})
        return fs
    return judge


def run(ctx):
    import pyflwdir.core as core
    if os.environ.get("PF_JIT", "0") == "1" or hasattr(core.rank, "py_func"):
        ctx.count("c13b:skipped-compiled-kernels")
        ctx.notes.append("C13_bounds: kernels are compiled in this process; access recording needs the interpreter")
        return
    self_test()
    rng = ctx.rng
    nworlds = (120 if ctx.tier == "quick" else 600) * getattr(ctx, "escalate", 1)
    for w in range(nworlds):
        ds, fam = gen_net(rng, ctx.tier)
        n = len(ds)
        if not wf(ds):
            raise RuntimeError("generator produced an ill-formed network")
        loops = has_loop(ds)
        outside = [i for i in range(n) if ds[i] == n]
        valid = [i for i in range(n) if ds[i] != n]
        nupc = [0] * n
        for i in valid:
            if ds[i] != i:
                nupc[ds[i]] += 1
        nontriv = len(valid) >= 2 and (bool(outside) or loops or max(nupc) > 1)
        dtype = rng.choice([np.intp, np.intp, np.int32, np.uint32])
        ds_np = ds_to_np(ds, dtype)
        mv = ds_np.dtype.type(np.array(-1).astype(dtype))
        world = {"ds": ds, "family": fam, "dtype": np.dtype(dtype).name}
        ctx.count("c13b:family:" + fam)
        if loops:
            ctx.count("c13b:with-loops")
        if outside:
            ctx.count("c13b:with-cells-outside")

        def case(kernel, op, margs, arrays, call, inputs, canon, extra_ok=(), expect_res=True, extra_desc=None):
            before = [(nm, np.array(a, copy=True)) for nm, a in inputs]
            st, res, touched, oob = recorded(call)
            mutated = [nm for (nm, b), (_, a) in zip(before, inputs) if not np.array_equal(np.asarray(a), b)]
            rc = canon(res) if st == "ok" else res
            desc = {"op": kernel, "world": world, **(extra_desc or {})}
            ctx.count("c13b:" + kernel)
            argnames = {getattr(a, "_pfname", None) for _, a in inputs}
            ctx.add(desc, [(op, margs)], make_judge(kernel, arrays, st, rc, touched, oob, mutated, True, argnames, expect_res),
                    nontrivial=nontriv)

        # --- rank / loop_indices / pit_indices / upstream_count ---------------------------------------
        a_ds = named(ds_np, "ds")
        case("core.rank", "c13b_rank", {"ds": ds}, ["ds", "ranks"], lambda: core.rank(a_ds, mv=mv),
             [("idxs_ds", a_ds)], lambda r: ints(r[0]))
        a_ds = named(ds_np, "ds")
        case("core.loop_indices", "c13b_loop_indices", {"ds": ds}, ["ds", "ranks"], lambda: core.loop_indices(a_ds, mv=mv),
             [("idxs_ds", a_ds)], lambda r: ints(r))
        a_ds = named(ds_np, "ds")
        case("core.pit_indices", "c13b_pit_indices", {"ds": ds}, ["ds"], lambda: core.pit_indices(a_ds),
             [("idxs_ds", a_ds)], lambda r: ints(r))
        mk = rng.choice(["none", "sparse", "dense", "all", "zero"])
        mask = None if mk == "none" else [rng.random() < {"sparse": 0.15, "dense": 0.7, "all": 2, "zero": -1}[mk] for _ in range(n)]
        a_ds = named(ds_np, "ds")
        a_mask = None if mask is None else named(np.array(mask, dtype=bool), "mask")
        case("core.upstream_count", "c13b_upstream_count", {"ds": ds, "mask": mask}, ["ds", "nup", "mask"],
             lambda: core.upstream_count(a_ds, mv=mv, mask=a_mask),
             [("idxs_ds", a_ds)] + ([] if mask is None else [("mask", a_mask)]), lambda r: ints(r), extra_desc={"mask": mask})

        # --- main_upstream ---------------------------------------------------------------------------
        uparea = [rng.randint(0, 6) for _ in range(n)]
        upa_min = rng.choice([0, 0, 1, 3])
        a_ds = named(ds_np, "ds")
        a_upa = named(np.array(uparea, dtype=rng.choice([np.float64, np.float32, np.int32])), "uparea")
        case("core.main_upstream", "c13b_main_upstream", {"ds": ds, "uparea": uparea, "upa_min": upa_min},
             ["ds", "uparea", "upa_main", "us_main"], lambda: core.main_upstream(a_ds, a_upa, upa_min=upa_min, mv=mv),
             [("idxs_ds", a_ds), ("uparea", a_upa)], lambda r: canon_idx(r, n), extra_desc={"uparea": uparea, "upa_min": upa_min})
        usmain_np = np.asarray(core.main_upstream(ds_np, np.array(uparea, dtype=np.float64), upa_min=upa_min, mv=mv))
        usmain = canon_idx(usmain_np, n)

        # --- idxs_seq --------------------------------------------------------------------------------
        pits = [i for i in range(n) if ds[i] == i]
        if pits and rng.random() < 0.3:
            pits = sorted(rng.sample(pits, rng.randint(1, len(pits))))
        a_ds = named(ds_np, "ds")
        a_pits = named(np.array(pits, dtype=dtype), "idxs_pit")
        case("core.idxs_seq", "c13b_idxs_seq", {"ds": ds, "pits": pits}, ["ds", "seq_out"],
             lambda: core.idxs_seq(a_ds, a_pits, mv),
             [("idxs_ds", a_ds), ("idxs_pit", a_pits)], lambda r: ints(r), extra_ok=("nup", "impl:idxs_us", "impl:idxs_pit"),
             extra_desc={"pits": pits})

        # --- _trace / path (downstream along idxs_ds, upstream along main_upstream) ---------------------
        for rep in range(3):
            up = rng.random() < 0.4
            nxt, nxt_np = (usmain, usmain_np) if up else (ds, ds_np)
            cyc = has_loop(nxt)
            mk = rng.choice(["none", "none", "sparse", "dense"])
            mask = None if mk == "none" else [rng.random() < {"sparse": 0.15, "dense": 0.6}[mk] for _ in range(n)]
            ml = rng.choice([None, None, 0, 1, 2, rng.randint(0, n)])
            if cyc and ml is None:
                ml = rng.randint(0, n + 3)      # a trace on a network with loops only ends through max_length
            start = rng.randrange(n) if (rng.random() < 0.5 or not outside) else rng.choice(outside)
            fuel = n + 2 + (ml or 0)
            a_nxt = named(nxt_np, "nxt")
            a_mask = None if mask is None else named(np.array(mask, dtype=bool), "mask")
            margs = {"nxt": nxt, "start": start, "fuel": fuel, "mask": mask, "max_length": ml}
            inputs = [("idxs_nxt", a_nxt)] + ([] if mask is None else [("mask", a_mask)])
            ed = {"start": start, "upstream": up, "mask": mask, "max_length": ml, "nxt": nxt}
            if rep < 2:
                case("core._trace", "c13b_trace", margs, ["nxt", "mask"],
                     lambda: core._trace(dtype(start), a_nxt, mask=a_mask, max_length=ml, mv=mv),
                     inputs, lambda r: canon_idx(r[0], n), extra_desc=ed)
            else:
                a_st = named(np.array([start], dtype=dtype), "idxs0")
                case("core.path", "c13b_trace", margs, ["nxt", "mask"],
                     lambda: core.path(a_st, a_nxt, mask=a_mask, max_length=ml, mv=mv),
                     inputs + [("idxs0", a_st)], lambda r: canon_idx(r[0][0], n), extra_ok=("impl:idxs0", "impl:dists"), extra_desc=ed)

        # --- _window ---------------------------------------------------------------------------------
        for rep in range(3):
            so = None if rng.random() < 0.35 else [rng.randint(1, 3) for _ in range(n)]
            hw = rng.randint(0, 4)
            start = rng.randrange(n) if (rng.random() < 0.6 or not outside) else rng.choice(outside)
            a_ds = named(ds_np, "ds")
            a_um = named(usmain_np, "us_main")
            a_so = None if so is None else named(np.array(so, dtype=rng.choice([np.int32, np.uint8, np.int64])), "strord")

            def canon_win(r, n=n):
                return [x for x in canon_idx(r, n) if x != n]
            case("core._window", "c13b_window", {"ds": ds, "usmain": usmain, "strord": so, "n": hw, "idx0": start},
                 ["ds", "us_main", "strord", "win"], lambda: core._window(dtype(start), hw, a_ds, a_um, strord=a_so, mv=mv),
                 [("idxs_ds", a_ds), ("idxs_us_main", a_um)] + ([] if so is None else [("strord", a_so)]), canon_win,
                 extra_desc={"idx0": start, "n": hw, "strord": so, "usmain": usmain})
        if ctx.cases and len(ctx.cases) > 400:
            ctx.flush()

    # negative control: the historical evaluation order of `_window` (strord[idx_ds] before idx_ds == mv) must be
    # reported out of bounds by the model's own log on a start cell outside the network
    def neg(answers):
        a = answers[0]
        if "__err__" in a or a.get("inb") != [0] or 4 not in a.get("log.strord", []):
            return [{"kind": "model", "what": f"negative control: the historical _window order was not reported out of bounds: {a}"}]
        return []
    ctx.add({"op": "negative-control:_window historical order"},
            [("c13b_window_bad", {"ds": [0, 0, 1, 4], "n": 2, "idx0": 3, "strord0": 1, "strord": [1, 1, 1, 1]})], neg, nontrivial=True)
    ctx.flush()
