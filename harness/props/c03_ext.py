"""C03 extension - construction and persistence of network objects.

Runs the REAL pyflwdir on generated inputs and compares with the Lean models of Model/C03_ext.lean
(`model` failures) and with independent declarative definitions (`spec` failures):

* `flwdir.get_loc_idx` / `flwdir.from_dataframe` (a duck-typed dataframe: pandas is not a dependency)
* `Flwdir(...)` / `FlwdirRaster(...)`: every documented ValueError, `_mv` per index dtype, `mask`,
  `n_upstream`, `idxs_pit`, `nnodes`, `__getitem__`
* `pyflwdir.from_array(...)`: `idxs_outlet` (pits with an explicit pit code), index dtype, raster attributes;
  the dtype-selection expression itself is extracted from the source (AST) and evaluated at its boundaries
* `dump` / `load` of both classes: `_dict`, and the loaded object against the original.
"""
import ast
import inspect
import os
import tempfile
import textwrap

import numpy as np
from common import (gen_funcgraph, gen_forest, gen_dem_net, gen_shape, canon_idx, ints, ds_to_np, exc_class,
                    net_features)
from props import c01 as C01

OPS_EXT = ["flwdir.get_loc_idx", "flwdir.from_dataframe", "Flwdir.__init__", "FlwdirRaster.__init__", "Flwdir._mv",
           "Flwdir.mask", "Flwdir.n_upstream", "Flwdir.__getitem__", "Flwdir.idxs_pit", "Flwdir.nnodes",
           "pyflwdir.from_array(idxs_outlet, dtype)", "Flwdir.dump/load", "FlwdirRaster.dump/load"]
DTYPES = [np.int32, np.int64, np.uint32, np.uint64]
DT_CODE = {"int32": 0, "int64": 1, "uint32": 2, "uint64": 3}
DT_NAME = {v: k for k, v in DT_CODE.items()}
FT_CODE = {"d8": 1, "ldd": 2, "nextxy": 3}
FT_NAME = {v: k for k, v in FT_CODE.items()}


def fbits(x):
    """IEEE-754 binary64 bit pattern of a float as a (signed) integer: the protocol carries integers only"""
    return int(np.float64(x).view(np.int64))


def big(lst):
    """integer list for the driver protocol; values beyond int64 must not pass through a float array"""
    lst = [int(x) for x in lst]
    return np.array(lst, dtype=object) if any(abs(x) >= 2 ** 62 for x in lst) else lst


def tr_bits(t):
    return [fbits(v) for v in tuple(t)[:6]]


def opt_idx(a, n):
    return None if a is None else canon_idx(a, n)


def W(desc):
    """replay description. `./check --replay` first hands the description to the base C03 harness, which reads
    ds / cls / shape / dtype as one of its own graph cases: give it a trivial valid network and keep the real
    case under "x"."""
    return {"op": desc["op"], "ds": [0, 0], "cls": "vector", "shape": None, "dtype": "int32", "x": desc}


def driver_err(ans):
    for a in ans:
        if "__err__" in a:
            return [{"kind": "model", "what": "driver error " + a["__err__"]}]
    return None


class FakeColumn:
    def __init__(self, values):
        self.values = values


class FakeFrame:
    """the two attributes `from_dataframe` uses of a pandas.DataFrame: `df[col].values`, `df.index.values`"""

    def __init__(self, index, cols):
        self.index = FakeColumn(index)
        self._cols = cols

    def __getitem__(self, k):
        return FakeColumn(self._cols[k])


# ----------------------------------------------------------------------------------------
# 1. get_loc_idx / from_dataframe
# ----------------------------------------------------------------------------------------
def gen_locidx(rng):
    n = rng.choice([0, 1, 2, 2, 3, 3, 4, 5, 6, 8, 12, 20, 35])
    dt = rng.choice(DTYPES)
    info = np.iinfo(dt)
    style = rng.choice(["small", "small", "wide", "wide", "extreme"])
    lo = max(info.min, -50) if style == "small" else (info.min if style == "extreme" else max(info.min, -10 ** 6))
    hi = 50 if style == "small" else (info.max if style == "extreme" else 10 ** 6)
    pool = set()
    while len(pool) < n + 3:
        if style == "extreme" and rng.random() < 0.3:
            pool.add(rng.choice([info.min, info.max, info.min + 1, info.max - 1, 0]))
        else:
            pool.add(rng.randint(lo, hi))
    pool = list(pool)
    rng.shuffle(pool)
    ids, absent = pool[:n], pool[n:]
    dup = n >= 2 and rng.random() < 0.15
    if dup:  # not a dataframe index any more: repeated ids (the dict keeps the last row)
        for _ in range(rng.randint(1, 2)):
            ids[rng.randrange(n)] = ids[rng.randrange(n)]
    mode = rng.choice(["tree", "tree", "any", "any", "nopit", "allpit"])
    dsids = []
    for i in range(n):
        u = rng.random()
        if mode == "allpit":
            dsids.append(rng.choice(absent) if u < 0.5 else ids[i])
        elif mode == "nopit":
            dsids.append(ids[(i + 1) % n] if n > 1 and u < 0.6 else ids[rng.randrange(n)])
        elif mode == "tree":
            if i == 0 or u < 0.12:
                dsids.append(rng.choice(absent) if rng.random() < 0.7 else ids[i])
            else:
                dsids.append(ids[rng.randrange(i)])
        else:
            dsids.append(rng.choice(absent) if u < 0.2 else ids[i] if u < 0.3 else ids[rng.randrange(n)])
    return {"op": "c03x_locidx", "ids": ids, "dsids": dsids, "dtype": np.dtype(dt).name, "dup": dup}


def py_locidx(ids, dsids):
    """trivial oracle: the (last) row holding the downstream id, the row itself if there is none"""
    out = []
    for i, d in enumerate(dsids):
        rows = [j for j, v in enumerate(ids) if v == d]
        out.append(rows[-1] if rows else i)
    return out


def check_locidx(ctx, desc):
    from pyflwdir import flwdir as fl
    dt = np.dtype(desc["dtype"]).type
    ids_l, dsids_l = [int(x) for x in desc["ids"]], [int(x) for x in desc["dsids"]]
    n = len(ids_l)
    ids, dsids = np.array(ids_l, dtype=dt), np.array(dsids_l, dtype=dt)
    desc = dict(desc, ds=py_locidx(ids_l, dsids_l), cls="vector", shape=None)
    distinct = len(set(ids_l)) == n
    ctx.count("locidx:" + ("distinct" if distinct else "repeated-ids"))
    obs = {}
    try:
        out = fl.get_loc_idx(ids, dsids)
        obs["out"] = ints(out)
        obs["out_dtype"] = out.dtype.name
        obs["inputs_intact"] = ints(ids) == ids_l and ints(dsids) == dsids_l
    except Exception as e:  # noqa: BLE001 - nothing is documented to raise
        ctx.evaluations += 1
        ctx.fail(W(desc), "spec", f"get_loc_idx raised {exc_class(e)}: {e!r}"[:200])
        return
    try:
        flw = fl.from_dataframe(FakeFrame(ids, {"idx_ds": dsids}))
        obs["df"] = "ok"
        obs["df.ds"] = ints(flw.idxs_ds)
        obs["df.pits"] = ints(flw.idxs_pit)
        obs["df.dtype"] = flw.idxs_ds.dtype.name
        obs["df.mv"] = int(flw._mv)
        obs["df.mask_all"] = bool(np.all(flw.mask))
        flw2 = fl.from_dataframe(FakeFrame(ids, {"to": dsids, "idx_ds": ids}), ds_col="to")
        obs["df2.ds"] = ints(flw2.idxs_ds)
    except ValueError:
        obs["df"] = "ValueError"
    except Exception as e:  # noqa: BLE001
        ctx.evaluations += 1
        ctx.fail(W(desc), "spec", f"from_dataframe raised {exc_class(e)}: {e!r}"[:200], observed=obs)
        return
    ctx.count("from_dataframe:" + obs["df"])

    def judge(ans):
        bad = driver_err(ans)
        if bad:
            return bad
        a = ans[0]
        fs = []
        out = obs["out"]
        if a["spec.ds"] != desc["ds"]:
            fs.append({"kind": "model", "what": "Lean row lookup differs from the Python oracle", "lean": a["spec.ds"]})
        if a["distinct"] != [int(distinct)]:
            fs.append({"kind": "model", "what": "Lean distinctness test differs from the harness"})
        if distinct:
            # the stated behaviour, checked on the implementation's own output
            pos = {v: j for j, v in enumerate(ids_l)}
            for i in range(n):
                want = pos.get(dsids_l[i], i)
                if i >= len(out) or out[i] != want:
                    fs.append({"kind": "spec", "what": f"get_loc_idx: row {i} (downstream id {dsids_l[i]}) points to row "
                               f"{out[i] if i < len(out) else None}, expected {want} "
                               f"({'the row holding that id' if dsids_l[i] in pos else 'itself: the id is absent, a pit'})"})
                    break
            if out != a["spec.ds"]:
                fs.append({"kind": "spec", "what": "get_loc_idx differs from the declarative row lookup", "spec": a["spec.ds"]})
            if any(not (0 <= v < n) for v in out):
                fs.append({"kind": "spec", "what": "get_loc_idx result is not a well-formed network (index out of range)"})
            if a["wf"] != [1]:
                fs.append({"kind": "model", "what": "the Lean model's result is not well formed"})
        if out != a["model.ds"]:
            fs.append({"kind": "model", "what": "get_loc_idx: implementation != Lean model", "model": a["model.ds"]})
        if obs["out_dtype"] != desc["dtype"]:
            fs.append({"kind": "spec", "what": f"get_loc_idx returned dtype {obs['out_dtype']} for an index of dtype {desc['dtype']}"})
        if not obs["inputs_intact"]:
            fs.append({"kind": "spec", "what": "get_loc_idx modified its arguments"})
        exp_spec = "ok" if a["spec.ctor"] == [0] else "ValueError"
        exp_model = "ok" if a["model.ctor"] == [0] else "ValueError"
        if distinct and obs["df"] != exp_spec:
            fs.append({"kind": "spec", "what": f"from_dataframe: {obs['df']}, expected {exp_spec} "
                       f"(a network needs >= 2 rows and >= 1 pit)"})
        if obs["df"] != exp_model:
            fs.append({"kind": "model", "what": f"from_dataframe: implementation {obs['df']}, Lean model {exp_model}"})
        if obs["df"] == "ok":
            if obs["df.ds"] != out or obs["df2.ds"] != out:
                fs.append({"kind": "spec", "what": "from_dataframe network differs from get_loc_idx(index, ds_col)"})
            if obs["df.pits"] != a["spec.pits"]:
                fs.append({"kind": "spec" if distinct else "model", "what": "from_dataframe: idxs_pit are not the rows whose downstream id is absent or their own",
                           "spec": a["spec.pits"]})
            if obs["df.pits"] != a["model.pits"]:
                fs.append({"kind": "model", "what": "from_dataframe: idxs_pit != Lean model"})
            if not obs["df.mask_all"]:
                fs.append({"kind": "spec", "what": "from_dataframe: a row is outside the network (mask False)"})
        for f in fs:
            f["observed"] = obs
        return fs

    ctx.add(W(desc), [("c03x_locidx", {"ids": big(ids_l), "dsids": big(dsids_l), "dtype": DT_CODE[desc["dtype"]]})], judge,
            nontrivial=n >= 3 and any(o != i for i, o in enumerate(obs["out"])) and any(o == i for i, o in enumerate(obs["out"])))


# ----------------------------------------------------------------------------------------
# 2. constructors and simple properties
# ----------------------------------------------------------------------------------------
def gen_net(rng, nmax=30):
    u = rng.random()
    if u < 0.06:
        n = rng.choice([0, 1, 1])
        return [rng.choice([0, n]) for _ in range(n)]
    n = rng.randint(2, nmax if rng.random() < 0.3 else 12)
    if u < 0.45:
        return gen_forest(rng, n, p_nodata=rng.choice([0.0, 0.2, 0.5]), fanin_bias=rng.choice([0.0, 0.5]))
    if u < 0.85:
        return gen_funcgraph(rng, n, p_nodata=rng.choice([0.0, 0.1, 0.3]))
    if u < 0.92:
        return [n] * n                      # no cell at all
    ds = gen_funcgraph(rng, n, p_nodata=0.1)  # no pit
    vs = [i for i in range(n) if ds[i] != n]
    for i in vs:
        if ds[i] == i:
            others = [j for j in vs if j != i]
            ds[i] = rng.choice(others) if others else n
    return ds


def shape_for(rng, n):
    opts = [(1, n), (n, 1)] + [(r, n // r) for r in range(2, n) if n % r == 0]
    return list(rng.choice(opts))


def gen_ctor(rng):
    ds = gen_net(rng)
    n = len(ds)
    # keep the network closed (a cell never drains into a missing cell): documented domain
    ds = [d if (d == n or ds[d] != n) else i for i, d in enumerate(ds)]
    pits = [i for i in range(n) if ds[i] == i]
    desc = {"op": "c03x_ctor", "ds": ds, "dtype": np.dtype(rng.choice(DTYPES)).name,
            "cls": rng.choice(["vector", "raster"]), "shape": None}
    u = rng.random()
    if u < 0.55:
        desc["pit"] = None
    elif u < 0.8:
        desc["pit"] = pits
    elif u < 0.9:
        desc["pit"] = []
    else:
        desc["pit"] = [p for p in pits if rng.random() < 0.5] or pits[:1]
    desc["nnodes"] = None if rng.random() < 0.7 else sum(1 for d in ds if d != n)
    desc["cache"] = rng.random() < 0.8
    if desc["cls"] == "raster":
        good = shape_for(rng, n) if n >= 1 else [0, 3]
        u = rng.random()
        desc["shape"] = good if u < 0.75 else rng.choice([[good[0] + 1, good[1]], [good[0], good[1] + 1], [n, n], [0, 0], [1, max(n - 1, 0)],
                                                          [n], [], [1, good[0], good[1]], [good[0], good[1], 1], [n, 1, 1, 1]])
        desc["ftype"] = rng.choice(["d8", "ldd", "nextxy"]) if rng.random() < 0.85 else rng.choice(["D8", "foo", "", "infer"])
        u = rng.random()
        if u < 0.5:
            desc["transform"] = None
        else:
            k = 6 if u < 0.85 else rng.choice([0, 1, 3, 5, 10, 12])
            desc["transform"] = [rng.choice([0.0, 1.0, -1.0, 0.5, 30.0, -0.25, 1e-3, 4.5e5]) for _ in range(k)]
            desc["transform_as"] = rng.choice(["tuple", "affine"]) if k == 6 else "tuple"
        desc["latlon"] = rng.random() < 0.3
    k = rng.randint(1, 5)
    desc["getitem"] = [rng.choice([0, n - 1, -1, -n, n, -n - 1, rng.randint(-n - 2, n + 2)]) for _ in range(k)]
    return desc


def build_obj(desc, ds_key="ds", extra=None):
    """construct the real object described by desc"""
    from pyflwdir.flwdir import Flwdir
    from pyflwdir.pyflwdir import FlwdirRaster
    from affine import Affine
    dt = np.dtype(desc["dtype"]).type
    n = len(desc[ds_key])
    kw = {}
    if desc.get("pit") is not None:
        kw["idxs_pit"] = np.array(desc["pit"], dtype=dt)
    if desc.get("seq") is not None:
        kw["idxs_seq"] = np.array(desc["seq"], dtype=dt)
    if desc.get("outlet") is not None:
        kw["idxs_outlet"] = np.array(desc["outlet"], dtype=dt)
    if desc.get("nnodes") is not None:
        kw["nnodes"] = int(desc["nnodes"])
    if "cache" in desc:
        kw["cache"] = bool(desc["cache"])
    kw.update(extra or {})
    idxs_ds = ds_to_np(desc[ds_key], dt) if n else np.array([], dtype=dt)
    if desc["cls"] == "vector":
        return Flwdir(idxs_ds=idxs_ds, **kw)
    if desc.get("transform") is not None:
        t = tuple(desc["transform"])
        kw["transform"] = Affine(*t) if desc.get("transform_as") == "affine" else t
    if "latlon" in desc:
        kw["latlon"] = bool(desc["latlon"])
    return FlwdirRaster(idxs_ds=idxs_ds, shape=tuple(desc["shape"]), ftype=desc["ftype"], **kw)


def ctor_args(desc, ds_key="ds"):
    """driver arguments describing the same constructor call"""
    a = {"cls": 0 if desc["cls"] == "vector" else 1, "pit": desc.get("pit"), "seq": desc.get("seq"),
         "outlet": desc.get("outlet"), "nnodes": desc.get("nnodes"), "cache": int(desc.get("cache", True))}
    if desc["cls"] == "raster":
        from pyflwdir import gis_utils
        t = desc.get("transform")
        a.update(shape=desc["shape"], ftype=FT_CODE.get(desc["ftype"], 0),
                 transform=[fbits(v) for v in (t if t is not None else tuple(gis_utils.IDENTITY)[:6])],
                 latlon=int(desc.get("latlon", False)))
    return a


def check_ctor(ctx, desc):
    dt = np.dtype(desc["dtype"]).type
    ds = [int(d) for d in desc["ds"]]
    n = len(ds)
    raw = ints(ds_to_np(ds, dt)) if n else []
    obs = {}
    try:
        flw = build_obj(desc)
        obs["ctor"] = "ok"
    except ValueError as e:
        obs["ctor"] = "ValueError"
        obs["msg"] = str(e)[:80]
    except Exception as e:  # noqa: BLE001
        ctx.evaluations += 1
        ctx.fail(W(desc), "spec", f"constructor raised {exc_class(e)} (only ValueError is documented): {e!r}"[:200])
        return
    ctx.count("ctor:" + desc["cls"] + ":" + obs["ctor"])
    ctx.count("ctor-dtype:" + desc["dtype"])
    if obs["ctor"] == "ok":
        try:
            mv = flw._mv
            obs["mv"] = int(mv)
            obs["mv_dtype"] = np.asarray(mv).dtype.name
            m = flw.mask
            obs["mask"] = [int(bool(x)) for x in np.asarray(m).ravel().tolist()]
            nup = flw.n_upstream
            obs["nup"] = ints(nup)
            obs["nup_shape_ok"] = tuple(np.shape(nup)) == (tuple(desc["shape"]) if desc["cls"] == "raster" else (n,))
            obs["pits"] = canon_idx(flw.idxs_pit, n)
            obs["nnodes"] = int(flw.nnodes)
            gi = []
            for idx in desc["getitem"]:
                try:
                    v = int(flw[idx])
                    gi.append(n if (v < 0 or v >= n) else v)
                except IndexError:
                    gi.append(-1)
            obs["getitem"] = gi
            obs["size"] = int(flw.size)
            obs["ds_intact"] = canon_idx(flw.idxs_ds, n) == ds
            if desc["cls"] == "raster":
                obs["shape"] = [int(x) for x in flw.shape]
                obs["ftype"] = flw.ftype
                obs["transform"] = tr_bits(flw.transform)
                obs["latlon"] = bool(flw.latlon)
            else:
                obs["shape"] = int(flw.shape)
        except Exception as e:  # noqa: BLE001
            ctx.evaluations += 1
            ctx.fail(W(desc), "spec", f"property of a constructed {desc['cls']} raised {exc_class(e)}: {e!r}"[:200], observed=obs)
            return
    args = {"raw": big(raw), "dtype": DT_CODE[desc["dtype"]], "getitem": desc["getitem"], **ctor_args(desc)}

    def judge(ans):
        bad = driver_err(ans)
        if bad:
            return bad
        a = ans[0]
        fs = []

        def spec(what, **kw):
            fs.append({"kind": "spec", "what": what, **kw})

        def model(what, **kw):
            fs.append({"kind": "model", "what": what, **kw})

        if a["rawok"] != [1] or a["wf"] != [1] or a["model.canon"] != ds:
            model("harness network is outside the documented domain or canonicalised differently by the model",
                  canon=a["model.canon"])
        if a["model.err"] == [2]:
            model("harness generated a constructor call outside the model")
            return fs
        exp_s = "ok" if a["spec.err"] == [0] else "ValueError"
        exp_m = "ok" if a["model.err"] == [0] else "ValueError"
        if obs["ctor"] != exp_s:
            spec(f"constructor: {obs['ctor']}, documented behaviour {exp_s} (ValueError iff size <= 1, no pit, unknown ftype, "
                 f"shape not 2-D / not matching the size, or invalid transform)")
        if obs["ctor"] != exp_m:
            model(f"constructor: implementation {obs['ctor']}, Lean model {exp_m}")
        if obs["ctor"] != "ok" or exp_m != "ok":
            return fs
        if [obs["mv"]] != a["spec.mv"]:
            spec(f"_mv = {obs['mv']} is not -1 cast to {desc['dtype']} (the fill value of the decoders)", spec=a["spec.mv"])
        if [obs["mv"]] != a["model.mv"]:
            model("_mv: implementation != Lean model", model=a["model.mv"])
        if desc["dtype"].startswith("uint") and obs["mv_dtype"] != desc["dtype"]:
            spec(f"_mv has dtype {obs['mv_dtype']} on a {desc['dtype']} network")
        if obs["mask"] != a["spec.mask"]:
            spec("mask is not 'cell is part of the network'", spec=a["spec.mask"])
        if obs["mask"] != a["model.mask"] or obs["mask"] != a["model.omask"]:
            model("mask: implementation != Lean model", model=a["model.mask"])
        if obs["nup"] != a["spec.nup"] or not obs["nup_shape_ok"]:
            spec("n_upstream is not the number of cells draining into each cell (-9 off the network)", spec=a["spec.nup"])
        if obs["nup"] != a["model.nup"]:
            model("n_upstream: implementation != Lean model", model=a["model.nup"])
        if obs["pits"] != a["spec.pits"]:
            spec("idxs_pit is neither the given array nor the self-draining cells", spec=a["spec.pits"])
        if obs["pits"] != a["model.pits"]:
            model("idxs_pit: implementation != Lean model", model=a["model.pits"])
        if [obs["nnodes"]] != a["spec.nnodes"]:
            spec("nnodes is neither the given value nor the number of cells draining to a pit", spec=a["spec.nnodes"])
        if [obs["nnodes"]] != a["model.nnodes"]:
            model("nnodes: implementation != Lean model", model=a["model.nnodes"])
        want = [(ds[i] if 0 <= i < n else ds[i + n] if -n <= i < 0 else -1) for i in desc["getitem"]]
        if obs["getitem"] != want:
            spec("__getitem__ differs from idxs_ds[idx]", want=want)
        if obs["getitem"] != a["model.getitem"]:
            model("__getitem__: implementation != Lean model", model=a["model.getitem"])
        if obs["size"] != n or not obs["ds_intact"]:
            spec("size / idxs_ds differ from the constructor argument")
        if desc["cls"] == "raster":
            t = desc.get("transform")
            if obs["shape"] != desc["shape"] or obs["ftype"] != desc["ftype"] or obs["latlon"] != bool(desc.get("latlon", False)) \
                    or (t is not None and obs["transform"] != [fbits(v) for v in t]):
                spec("shape / ftype / transform / latlon differ from the constructor arguments")
        elif obs["shape"] != n:
            spec("Flwdir.shape != size")
        for f in fs:
            f["observed"] = obs
        return fs

    feat = net_features(ds) if n else {"valid": 0, "confluences": 0}
    ctx.add(W(desc), [("c03x_ctor", args)], judge,
            nontrivial=obs["ctor"] != "ok" or (feat["valid"] >= 2 and feat["confluences"] >= 1),
            key={k: desc.get(k) for k in ("ds", "dtype", "cls", "shape", "pit", "ftype", "transform", "nnodes")})


# ----------------------------------------------------------------------------------------
# 3. from_array: idxs_outlet, dtype, raster attributes
# ----------------------------------------------------------------------------------------
def dtype_expr():
    """the dtype-selection expression of pyflwdir.from_array, extracted from the source"""
    from pyflwdir import pyflwdir as pf
    tree = ast.parse(textwrap.dedent(inspect.getsource(pf.from_array)))
    for node in ast.walk(tree):
        if isinstance(node, ast.Assign) and len(node.targets) == 1 and isinstance(node.targets[0], ast.Name) \
                and node.targets[0].id == "dtype":
            return compile(ast.Expression(node.value), "<from_array dtype>", "eval")
    return None


def check_dtype(ctx):
    desc = {"op": "c03x_dtype", "ds": [0, 0], "cls": "vector", "shape": None, "dtype": "int32"}
    code = dtype_expr()
    ns = [0, 1, 2, 1000, 2 ** 31 - 3, 2 ** 31 - 2, 2 ** 31 - 1, 2 ** 31, 2 ** 32 - 4, 2 ** 32 - 3, 2 ** 32 - 2,
          2 ** 32 - 1, 2 ** 32, 2 ** 40, 2 ** 63 - 1]
    if code is None:
        ctx.evaluations += 1
        ctx.fail(W(desc), "model", "the dtype selection of pyflwdir.from_array could not be located (assignment to `dtype`)")
        return
    impl = []
    for n in ns:
        impl.append(DT_CODE.get(np.dtype(eval(code, {"np": np, "n": n})).name, -1))  # noqa: S307 - expression of /repo
    from pyflwdir import core

    def judge(ans):
        bad = driver_err(ans)
        if bad:
            return bad
        a = ans[0]
        fs = []
        if a["spec.fits"] != [1] * len(ns):
            fs.append({"kind": "model", "what": "the model's dtype cannot hold every index or its sentinel is an index"})
        for k in range(len(ns)):
            if impl[k] == a["model.dtype"][k]:
                continue
            # is the implementation's choice still adequate?  (index n-1 representable, sentinel not an index)
            d = np.dtype(DT_NAME.get(impl[k], "int8"))
            mvv = int(np.array(-1).astype(d)) if d.kind == "i" else int(np.iinfo(d).max)
            ok = ns[k] - 1 <= np.iinfo(d).max and (mvv < 0 or ns[k] <= mvv)
            fs.append({"kind": "model" if ok else "spec",
                       "what": f"from_array index dtype for n = {ns[k]}: implementation {DT_NAME.get(impl[k])}, model "
                               f"{DT_NAME.get(a['model.dtype'][k])}" + ("" if ok else " - the chosen dtype cannot hold every index plus a distinct sentinel")})
        if int(core._mv) != -1:
            fs.append({"kind": "spec", "what": f"core._mv = {int(core._mv)} (documented: -1)"})
        if a["model.mv"] != a["spec.mv"]:
            fs.append({"kind": "model", "what": "model sentinels differ from -1 cast to the dtype"})
        return fs

    ctx.add(W(desc), [("c03x_dtype", {"n": ns})], judge, nontrivial=False)


def gen_from_array(rng, ctx):
    shape = gen_shape(rng, max_cells=42, max_side=7)
    fmt = rng.choice(["d8", "d8", "ldd", "nextxy"])
    desc = {"op": "c03x_from_array", "fmt": fmt, "shape": list(shape)}
    if fmt == "nextxy":
        desc["xs"], desc["ys"] = C01.rand_xy(rng, shape, rng.choice(C01.XY_STYLES[:-1]))
        desc["form"] = rng.choice(["array", "tuple"])
    else:
        desc["codes"] = C01.rand_tab(rng, fmt, shape, rng.choice(["uniform", "few_nodata", "few_nodata", "links", "dem", "dem", "all_pit", "ambiguous"]))
    C01.rand_mask(rng, desc, ctx)
    C01.pick_ft(rng, desc, ctx)
    u = rng.random()
    if u < 0.6:
        desc["transform"] = None
    else:
        desc["transform"] = [rng.choice([0.0, 1.0, -1.0, 0.5, 30.0, -0.25]) for _ in range(6 if u < 0.9 else rng.choice([2, 5]))]
    desc["latlon"] = rng.random() < 0.3
    return desc


def check_from_array(ctx, desc):
    from pyflwdir import pyflwdir as pf
    from affine import Affine
    shape = tuple(desc["shape"])
    n = shape[0] * shape[1]
    data = C01.build_data(desc)
    mask = C01.build_mask(desc)
    ft = desc.get("ft", desc["fmt"])
    kw = {}
    if ft != "infer":
        kw["ftype"] = ft
        kw["check_ftype"] = bool(desc.get("check", True))
    if mask is not None:
        kw["mask"] = mask
    if desc.get("transform") is not None:
        kw["transform"] = tuple(desc["transform"])
    kw["latlon"] = bool(desc.get("latlon", False))
    obs = {}
    try:
        flw = pf.from_array(data, **kw)
        obs["r"] = "ok"
        obs["ds"] = canon_idx(flw.idxs_ds, n)
        obs["pits"] = canon_idx(flw.idxs_pit, n)
        obs["outlet"] = None if flw.idxs_outlet is None else canon_idx(flw.idxs_outlet, n)
        obs["dtype"] = flw.idxs_ds.dtype.name
        obs["dtypes_same"] = flw.idxs_pit.dtype == flw.idxs_ds.dtype and (flw.idxs_outlet is None or flw.idxs_outlet.dtype == flw.idxs_ds.dtype)
        obs["shape"] = [int(x) for x in flw.shape]
        obs["ftype"] = flw.ftype
        obs["transform"] = tr_bits(flw.transform)
        obs["latlon"] = bool(flw.latlon)
    except ValueError:
        obs["r"] = "ValueError"
    except Exception as e:  # noqa: BLE001
        obs["r"] = exc_class(e)
        obs["msg"] = repr(e)[:120]
    ctx.count("from_array:" + obs["r"])
    desc = dict(desc, ds=obs.get("ds", list(range(n))), cls="raster", dtype="int32", ftype=desc["fmt"])
    from pyflwdir import gis_utils
    t = desc.get("transform")
    args = {"ft": C01.FT_CODE[ft], "check": int(bool(desc.get("check", True))), **C01.driver_data_args(dict(desc, shape=list(shape))),
            "mshape": desc.get("mshape") if mask is not None else None,
            "mask": [int(x != 0) for x in desc["mask"]] if mask is not None else None,
            "transform": [fbits(v) for v in (t if t is not None else tuple(gis_utils.IDENTITY)[:6])],
            "latlon": int(bool(desc.get("latlon", False)))}

    def judge(ans):
        bad = driver_err(ans)
        if bad:
            return bad
        a = ans[0]
        fs = []
        defined = a.get("spec.defined") == [1]
        if defined:
            if obs["r"] != "ok":
                fs.append({"kind": "spec", "what": f"pyflwdir.from_array raised {obs['r']} on a legal raster with pits"})
            else:
                if obs["outlet"] is None or obs["outlet"] != a["spec.outlet"]:
                    fs.append({"kind": "spec", "what": "idxs_outlet is not exactly the cells carrying an explicit pit code (after masking)",
                               "spec": a["spec.outlet"]})
                if obs["outlet"] is not None and not set(obs["outlet"]) <= set(obs["pits"]):
                    fs.append({"kind": "spec", "what": "idxs_outlet is not a subset of idxs_pit"})
                if obs["outlet"] is not None and sorted(set(obs["pits"]) - set(obs["outlet"])) != a["spec.edge"]:
                    fs.append({"kind": "spec", "what": "pits that are not outlets are not exactly the cells whose direction code leaves "
                               "the raster / points into nodata / at themselves", "spec": a["spec.edge"]})
                if obs["pits"] != a["spec.pits"]:
                    fs.append({"kind": "spec", "what": "idxs_pit differ from the self-draining cells of the declarative graph"})
                if obs["dtype"] != "int32" or not obs["dtypes_same"]:
                    fs.append({"kind": "spec", "what": f"index arrays are {obs['dtype']} (documented: smallest dtype, int32 below 2^31-1 cells) or differ among themselves"})
        me = a["model.err"][0]
        if me == 0:
            if obs["r"] != "ok":
                fs.append({"kind": "model", "what": f"from_array: implementation {obs['r']}, Lean model ok"})
            else:
                mexp = (a["model.ds"], a["model.pits"], a["model.outlet"], DT_NAME[a["model.dtype"][0]], a["model.shape"],
                        FT_NAME[a["model.ftype"][0]], a["model.transform"], a["model.latlon"] == [1])
                got = (obs["ds"], obs["pits"], obs["outlet"], obs["dtype"], obs["shape"], obs["ftype"], obs["transform"], obs["latlon"])
                if got != mexp:
                    names = ["idxs_ds", "idxs_pit", "idxs_outlet", "dtype", "shape", "ftype", "transform", "latlon"]
                    fs.append({"kind": "model", "what": "from_array: implementation != Lean model in " +
                               ", ".join(nm for nm, x, y in zip(names, got, mexp) if x != y), "model": mexp})
        elif me == 1:
            if obs["r"] != "ValueError":
                fs.append({"kind": "model", "what": f"from_array: Lean model raises ValueError, implementation {obs['r']}"})
        else:
            fs.append({"kind": "model", "what": "harness generated a from_array call outside the model"})
        for f in fs:
            f["observed"] = obs
        return fs

    nontriv = obs["r"] == "ok" and obs["outlet"] is not None and 0 < len(obs["outlet"]) < len(obs["pits"])
    ctx.add(W(desc), [("c03x_from_array", args)], judge, nontrivial=nontriv)


# ----------------------------------------------------------------------------------------
# 4. dump / load
# ----------------------------------------------------------------------------------------
def gen_dump(rng):
    cls = rng.choice(["vector", "raster", "raster"])
    if cls == "raster" and rng.random() < 0.5:
        shape = gen_shape(rng, max_cells=30, max_side=6)
        ds = gen_dem_net(rng, shape)
    else:
        n = rng.randint(2, 24)
        ds = gen_forest(rng, n, p_nodata=rng.choice([0.0, 0.2])) if rng.random() < 0.6 else gen_funcgraph(rng, n)
        shape = shape_for(rng, n)
    n = len(ds)
    if not any(ds[i] == i for i in range(n)):
        ds[next(i for i in range(n) if ds[i] != n)] = next(i for i in range(n) if ds[i] != n)
    desc = {"op": "c03x_dump", "ds": ds, "cls": cls, "shape": list(shape) if cls == "raster" else None,
            "dtype": np.dtype(rng.choice(DTYPES)).name, "cache": rng.random() < 0.8}
    if cls == "raster":
        desc["ftype"] = rng.choice(["d8", "ldd", "nextxy"])
        desc["transform"] = None if rng.random() < 0.4 else [rng.choice([0.5, 1.0, 30.0, 0.1]), 0.0, rng.choice([0.0, -180.0, 4.5e5]),
                                                              0.0, rng.choice([-0.5, -1.0, -30.0, -0.1]), rng.choice([0.0, 90.0, 5.1e6])]
        desc["transform_as"] = rng.choice(["tuple", "affine"])
        desc["latlon"] = rng.random() < 0.4
    pits = [i for i in range(n) if ds[i] == i]
    desc["outlet"] = None if rng.random() < 0.5 else [p for p in pits if rng.random() < 0.6]
    desc["pre"] = rng.choice(["fresh", "fresh", "walk", "sort", "seq-property", "nnodes-property", "given", "repair"])
    return desc


def obj_state(flw, n):
    st = {"ds": canon_idx(flw.idxs_ds, n), "dtype": flw.idxs_ds.dtype.name, "seq": opt_idx(flw._seq, n),
          "pit": opt_idx(flw._pit, n), "nnodes": None if flw._nnodes is None else int(flw._nnodes),
          "outlet": opt_idx(flw.idxs_outlet, n), "cache": bool(flw.cache), "mv": int(flw._mv)}
    if hasattr(flw, "ftype"):
        st.update(shape=[int(x) for x in flw.shape], ftype=flw.ftype, transform=tr_bits(flw.transform), latlon=bool(flw.latlon))
    return st


def check_dump(ctx, desc):
    from pyflwdir.flwdir import Flwdir
    from pyflwdir.pyflwdir import FlwdirRaster
    ds = [int(d) for d in desc["ds"]]
    n = len(ds)
    obs = {}
    fn = None
    try:
        cdesc = dict(desc)
        if desc["pre"] == "given":     # order, pits and count handed to the constructor
            from common import topo_of
            cdesc.update(seq=topo_of(ds), pit=[i for i in range(n) if ds[i] == i], nnodes=len(topo_of(ds)))
        flw = build_obj(cdesc)
        if desc["pre"] in ("walk", "sort"):
            flw.order_cells(desc["pre"])
        elif desc["pre"] == "seq-property":
            _ = flw.idxs_seq
        elif desc["pre"] == "nnodes-property":
            _ = flw.nnodes
        elif desc["pre"] == "repair":
            flw.repair_loops()
        before = obj_state(flw, n)
        d = flw._dict
        obs["dict.keys"] = sorted(d.keys())
        obs["dict.area_is_none"] = d.get("area", None) is None
        obs["dict.nnodes"] = int(d["nnodes"])
        obs["dict.ds"] = canon_idx(d["idxs_ds"], n)
        obs["dict.seq"] = opt_idx(d["idxs_seq"], n)
        obs["dict.pit"] = opt_idx(d["idxs_pit"], n)
        if desc["cls"] == "raster":
            obs["dict.raster"] = [list(int(x) for x in d["shape"]), d["ftype"], tr_bits(d["transform"]), bool(d["latlon"])]
        fd, fn = tempfile.mkstemp(prefix="pfverif_c03x_", suffix=".pkl")
        os.close(fd)
        flw.dump(fn)
        after = obj_state(flw, n)
        klass = FlwdirRaster if desc["cls"] == "raster" else Flwdir
        flw2 = klass.load(fn)
        obs["loaded_class_ok"] = type(flw2) is klass
        loaded = obj_state(flw2, n)
        # the loaded object must work like the original (same order / pits / count through the public properties)
        obs["public.same"] = (canon_idx(flw2.idxs_pit, n) == canon_idx(flw.idxs_pit, n) and int(flw2.nnodes) == int(flw.nnodes)
                              and ints(flw2.rank) == ints(flw.rank)
                              and sorted(canon_idx(flw2.idxs_seq, n)) == sorted(canon_idx(flw.idxs_seq, n)))
        obs.update(before=before, after=after, loaded=loaded)
    except Exception as e:  # noqa: BLE001
        ctx.evaluations += 1
        ctx.fail(W(desc), "spec", f"dump/load raised {exc_class(e)}: {e!r}"[:200], observed=obs)
        return
    finally:
        if fn and os.path.exists(fn):
            os.remove(fn)
    ctx.count("dump:" + desc["cls"] + ":" + desc["pre"])
    b = obs["before"]
    st_desc = {"cls": desc["cls"], "pit": b["pit"], "seq": b["seq"], "outlet": b["outlet"], "nnodes": b["nnodes"],
               "cache": b["cache"]}
    args = {"ds": b["ds"], "dtype": DT_CODE[b["dtype"]], "cls": 0 if desc["cls"] == "vector" else 1, "pit": b["pit"],
            "seq": b["seq"], "outlet": b["outlet"], "nnodes": b["nnodes"], "cache": int(b["cache"])}
    if desc["cls"] == "raster":
        args.update(shape=b["shape"], ftype=FT_CODE[b["ftype"]], transform=b["transform"], latlon=int(b["latlon"]))
    del st_desc

    def opt(a, pre):
        return a[pre] if a[pre + ".some"] == [1] else None

    def rast(a, pre):
        if a[pre + ".raster"] != [1]:
            return None
        return [a[pre + ".shape"], FT_NAME[a[pre + ".ftype"][0]], a[pre + ".transform"], a[pre + ".latlon"] == [1]]

    def judge(ans):
        bad = driver_err(ans)
        if bad:
            return bad
        a = ans[0]
        fs = []

        def spec(what, **kw):
            fs.append({"kind": "spec", "what": what, **kw})

        def model(what, **kw):
            fs.append({"kind": "model", "what": what, **kw})

        if a["model.err"] != [0] or a.get("model.load.err") != [0]:
            model("the Lean model rejects a state / a dictionary the implementation accepts")
            return fs
        ld, af = obs["loaded"], obs["after"]
        # the vector class also stores the user-supplied node area (None when none was given; fix afe1ea5 / F12e) - the
        # Lean dictionary models the network part
        keys = ["idxs_ds", "idxs_pit", "idxs_seq", "nnodes"] + (["ftype", "latlon", "shape", "transform"] if desc["cls"] == "raster" else ["area"])
        if obs["dict.keys"] != sorted(keys):
            model("_dict has other keys than the model's dictionary", keys=obs["dict.keys"])
        if desc["cls"] != "raster" and not obs.get("dict.area_is_none", True):
            spec("_dict holds an area although the object was built without one")
        # spec: round trip = identity on what the object shows
        s_r = rast(a, "spec")
        want = (a["spec.ds"], b["dtype"], opt(a, "spec.seq"), opt(a, "spec.pit"), a["spec.nnodes"][0])
        got = (ld["ds"], ld["dtype"], ld["seq"], ld["pit"], ld["nnodes"])
        if got != want:
            names = ["idxs_ds", "index dtype", "idxs_seq", "idxs_pit", "nnodes"]
            spec("dump/load changed " + ", ".join(nm for nm, x, y in zip(names, got, want) if x != y), loaded=got, original=want)
        if desc["cls"] == "raster":
            got_r = [ld["shape"], ld["ftype"], ld["transform"], ld["latlon"]]
            if got_r != s_r:
                spec("dump/load changed shape / ftype / transform / latlon", loaded=got_r, original=s_r)
        if not obs["loaded_class_ok"] or not obs["public.same"] or ld["mv"] != b["mv"]:
            spec("the loaded object does not behave like the original (class, idxs_pit, nnodes, rank, idxs_seq or _mv differ)")
        if (af["ds"], af["seq"], af["pit"], af["outlet"]) != (b["ds"], b["seq"], b["pit"], b["outlet"]):
            spec("dump modified the object")
        # model
        m_dict = (a["model.dict.nnodes"][0], a["model.dict.ds"], opt(a, "model.dict.seq"), opt(a, "model.dict.pit"))
        i_dict = (obs["dict.nnodes"], obs["dict.ds"], obs["dict.seq"], obs["dict.pit"])
        if i_dict != m_dict or (desc["cls"] == "raster" and obs["dict.raster"] != rast(a, "model.dict")):
            model("_dict: implementation != Lean model", impl=i_dict, model=m_dict)
        if [af["nnodes"]] != a["model.after.nnodes"]:
            model("_nnodes after dump: implementation != Lean model")
        m_ld = (a["model.load.ds"], DT_NAME[a["model.load.dtype"][0]], opt(a, "model.load.seq"), opt(a, "model.load.pit"),
                opt(a, "model.load.outlet"), (a["model.load.nnodes"] or [None])[0], a["model.load.cache"] == [1])
        i_ld = (ld["ds"], ld["dtype"], ld["seq"], ld["pit"], ld["outlet"], ld["nnodes"], ld["cache"])
        if i_ld != m_ld or (desc["cls"] == "raster" and [ld["shape"], ld["ftype"], ld["transform"], ld["latlon"]] != rast(a, "model.load")):
            model("loaded object: implementation != Lean model", impl=i_ld, model=m_ld)
        if a["model.sameview"] != [1]:
            model("the Lean model's round trip is not the identity on the view")
        for f in fs:
            f["observed"] = obs
        return fs

    feat = net_features(ds)
    ctx.add(W(desc), [("c03x_dump", args)], judge, nontrivial=feat["valid"] >= 3 and feat["confluences"] >= 1)


# ----------------------------------------------------------------------------------------
# 5. the node count of a FRESH pyflwdir.from_array object on rasters with loops
# ----------------------------------------------------------------------------------------
# C03: cells that never reach a pit (members of, or tributaries to, a cycle) are excluded from the sequence AND the node
# count. The count has several sources inside the object (a constructor argument, a rank computation, the size of the
# sequence): the first thing asked of a fresh object is therefore the count itself - through every door that shows it
# (nnodes, ncells, str(), _dict, dump + load) - on rasters of all three formats that contain loops with tributaries, and
# it is compared with the harness' own count of the cells of its own graph that reach a pit; then again after ordering.
# There is no Lean op for this composition: judged on the property clause with the brute-force oracle below (`spec`).
FIRST_QUERIES = ["nnodes", "ncells", "str", "_dict", "dump", "dump-load"]
ORDERINGS = ["idxs_seq", "walk", "sort"]


def reach_pit(g):
    """brute force: the cells of g (n = no cell) that sit on a pit after n steps"""
    n = len(g)
    out = []
    for i in range(n):
        if g[i] == n:
            continue
        j = i
        for _ in range(n):
            j = g[j]
        if g[j] == j:
            out.append(i)
    return out


def gen_loopy_graph(rng, shape, neighbours):
    """functional graph on the cells of a raster with (usually) loops and trees hanging on them; >= 1 pit.
    neighbours: links only between 8-neighbours (expressible as D8 / LDD codes), else arbitrary (NEXTXY)"""
    r, c = shape
    n = r * c
    if not neighbours and rng.random() < 0.5:
        g = gen_funcgraph(rng, n, p_nodata=rng.choice([0.0, 0.1, 0.3]))
    else:
        g = gen_dem_net(rng, shape, p_nodata=rng.choice([0.0, 0.15, 0.3]))
        frac = rng.choice([0.0, 0.1, 0.2, 0.4, 0.7, 1.0])
        for i in range(n):
            if g[i] == n or rng.random() >= frac:
                continue
            ri, ci = divmod(i, c)
            nb = [(ri + a) * c + ci + b for a in (-1, 0, 1) for b in (-1, 0, 1)
                  if (a, b) != (0, 0) and 0 <= ri + a < r and 0 <= ci + b < c and g[(ri + a) * c + ci + b] != n]
            if nb:
                g[i] = rng.choice(nb)
    vs = [i for i in range(n) if g[i] != n]
    if not any(g[i] == i for i in vs):
        p = rng.choice(vs)
        g[p] = p
    return g


def encode_graph(rng, g, shape, fmt):
    """raster data of format fmt that reads as g: every way the format can write a pit is used"""
    r, c = shape
    n = r * c
    if fmt == "nextxy":
        xs, ys = [-9999] * n, [-9999] * n
        for i, d in enumerate(g):
            if d == n:
                continue
            if d != i:
                xs[i], ys[i] = d % c + 1, d // c + 1
                continue
            u = rng.random()
            if u < 0.6:
                xs[i] = ys[i] = rng.choice([-9, -10])
            elif u < 0.8:
                xs[i], ys[i] = i % c + 1, i // c + 1
            else:
                xs[i], ys[i] = rng.choice([(0, i // c + 1), (c + 1, i // c + 1), (i % c + 1, 0), (i % c + 1, r + 1)])
        return {"xs": xs, "ys": ys}
    dirs = C01.DIRS[fmt]
    inv = {v: k for k, v in dirs.items()}
    codes = []
    for i, d in enumerate(g):
        ri, ci = divmod(i, c)
        if d == n:
            codes.append(C01.NODATA[fmt])
        elif d != i:
            codes.append(inv[(d // c - ri, d % c - ci)])
        else:
            off = [k for k, (a, b) in dirs.items() if not (0 <= ri + a < r and 0 <= ci + b < c) or g[(ri + a) * c + ci + b] == n]
            codes.append(rng.choice(off) if off and rng.random() < 0.3 else rng.choice(C01.PITS[fmt]))
    return {"codes": codes}


def gen_first_count(rng, ctx):
    shape = gen_shape(rng, max_cells=42, max_side=7)
    n = shape[0] * shape[1]
    fmt = rng.choice(["d8", "ldd", "nextxy"])
    g = gen_loopy_graph(rng, shape, neighbours=fmt != "nextxy")
    desc = {"op": "c03x_first_count", "fmt": fmt, "shape": list(shape), **encode_graph(rng, g, shape, fmt)}
    if fmt == "nextxy":
        desc["form"] = rng.choice(["array", "tuple"])
    if rng.random() < 0.25:   # user mask: the cells outside are no cells, a link into them ends in a pit
        m = [int(rng.random() < 0.85) for _ in range(n)]
        if any(m[i] and g[i] == i for i in range(n)):
            desc.update(mask=m, mshape=list(shape), mask_dtype=rng.choice(["bool", "uint8"]))
            g = [n if not m[i] else d if d == n or m[d] else i for i, d in enumerate(g)]
    desc["ft"] = fmt if fmt == "ldd" or rng.random() < 0.7 else "infer"   # an LDD raster may read as D8 too
    desc["check"] = rng.random() < 0.7
    desc["g"] = g
    desc["first"] = rng.choice(FIRST_QUERIES)
    desc["order"] = rng.choice(ORDERINGS)
    return desc


def show_count(flw, how, klass):
    """the node count of the object as shown through one of its doors"""
    if how == "nnodes":
        return int(flw.nnodes)
    if how == "ncells":
        return int(flw.ncells)
    if how == "_dict":
        return int(flw._dict["nnodes"])
    if how == "str":
        import re
        m = re.search(r"'nnodes':\s*(-?\d+)", str(flw))
        return int(m.group(1)) if m else None
    fd, fn = tempfile.mkstemp(prefix="pfverif_c03x_", suffix=".pkl")
    os.close(fd)
    try:
        flw.dump(fn)
        if how == "dump":
            import pickle
            with open(fn, "rb") as h:
                return int(pickle.load(h)["nnodes"])
        return int(klass.load(fn).nnodes)
    finally:
        if os.path.exists(fn):
            os.remove(fn)


def check_first_count(ctx, desc):
    from pyflwdir import pyflwdir as pf
    shape = tuple(desc["shape"])
    n = shape[0] * shape[1]
    g = [int(d) for d in desc["g"]]
    data = C01.build_data(desc)
    mask = C01.build_mask(desc)
    kw = {}
    if desc["ft"] != "infer":
        kw.update(ftype=desc["ft"], check_ftype=bool(desc.get("check", True)))
    if mask is not None:
        kw["mask"] = mask
    reach = reach_pit(g)
    want = len(reach)
    loops = sum(1 for d in g if d != n) - want
    wdesc = W(desc)
    obs = {"want": want, "loop_cells": loops}
    fs = []
    try:
        flw = pf.from_array(data, **kw)
        obs["ds"] = canon_idx(flw.idxs_ds, n)
        if obs["ds"] != g:
            fs.append({"kind": "spec", "what": f"pyflwdir.from_array ({desc['fmt']}) does not read the raster as the graph it was written from"})
        # FIRST query on the fresh object
        obs["first"] = show_count(flw, desc["first"], pf.FlwdirRaster)
        obs["first.all"] = {h: show_count(flw, h, pf.FlwdirRaster) for h in FIRST_QUERIES}
        if desc["order"] == "idxs_seq":
            seq = flw.idxs_seq
        else:
            flw.order_cells(desc["order"])
            seq = flw._seq
        obs["seq.size"] = int(np.size(seq))
        obs["seq.set_ok"] = sorted(canon_idx(seq, n)) == reach
        obs["rank>=0"] = int(np.sum(flw.rank >= 0))
        obs["after.all"] = {h: show_count(flw, h, pf.FlwdirRaster) for h in FIRST_QUERIES}
    except Exception as e:  # noqa: BLE001 - a legal raster with a pit: nothing is documented to raise
        ctx.evaluations += 1
        ctx.fail(wdesc, "spec", f"from_array / node count on a raster with {loops} loop cells raised {exc_class(e)}: {e!r}"[:200], observed=obs)
        return
    ctx.count("first-count:" + desc["fmt"] + (":loops" if loops else ":valid"))
    ctx.count("first-count-query:" + desc["first"])
    txt = f"{want} of the {want + loops} cells reach a pit ({loops} on / draining to a loop)"
    if obs["first"] != want:
        fs.append({"kind": "spec", "what": f"first query on a fresh from_array object: {desc['first']} shows {obs['first']} nodes, but {txt}: "
                   "loop cells must be excluded from the node count"})
    bad = sorted(h for h, v in obs["first.all"].items() if v != want)
    if bad and obs["first"] == want:
        fs.append({"kind": "spec", "what": f"before ordering: {', '.join(bad)} show {[obs['first.all'][h] for h in bad]} nodes, but {txt}"})
    if obs["seq.size"] != want or not obs["seq.set_ok"] or obs["rank>=0"] != want:
        fs.append({"kind": "spec", "what": f"after {desc['order']}: the sequence has {obs['seq.size']} cells, rank >= 0 for {obs['rank>=0']}, but {txt}"})
    bad = sorted(h for h, v in obs["after.all"].items() if v != want)
    if bad:
        fs.append({"kind": "spec", "what": f"after {desc['order']}: {', '.join(bad)} show {[obs['after.all'][h] for h in bad]} nodes, but {txt}"})
    for f in fs:
        f["observed"] = obs
    ctx.add(wdesc, [], lambda ans: fs, nontrivial=loops >= 1 and want >= 2,
            key={k: desc.get(k) for k in ("fmt", "shape", "g", "mask", "ft", "first", "order")})


# ----------------------------------------------------------------------------------------
CHECKS = {"c03x_locidx": check_locidx, "c03x_ctor": check_ctor, "c03x_from_array": check_from_array,
          "c03x_dump": check_dump, "c03x_first_count": check_first_count}


def corpus(ctx):
    # the example of tests/test_flwdir.py (first downstream id absent -> pit) in all index dtypes
    ids = [13924, 15144, 10043, 432, 7684, 6379, 6401, 3650, 2725, 95, 147, 7777]
    dsids = [15442, 13924, 13924, 10043, 10043, 7684, 7684, 6401, 6401, 2725, 2725, 7777]
    for dt in ("int32", "int64", "uint32", "uint64"):
        check_locidx(ctx, {"op": "c03x_locidx", "ids": ids, "dsids": dsids, "dtype": dt})
    check_locidx(ctx, {"op": "c03x_locidx", "ids": [5, 7, 5, 9], "dsids": [7, 5, 9, 100], "dtype": "int64"})   # repeated id
    check_locidx(ctx, {"op": "c03x_locidx", "ids": [1, 2], "dsids": [2, 1], "dtype": "int64"})                  # no pit
    check_locidx(ctx, {"op": "c03x_locidx", "ids": [2 ** 64 - 1, 0], "dsids": [0, 2 ** 64 - 1], "dtype": "uint64"})
    check_locidx(ctx, {"op": "c03x_locidx", "ids": [2 ** 64 - 1, 0], "dsids": [0, 7], "dtype": "uint64"})
    check_locidx(ctx, {"op": "c03x_locidx", "ids": [-1, 3, 4], "dsids": [-1, -1, 9], "dtype": "int32"})         # id -1 is an id, not a sentinel
    for dt in ("int32", "int64", "uint32", "uint64"):
        for cls, shape in (("vector", None), ("raster", [2, 3])):
            base = {"op": "c03x_ctor", "ds": [1, 5, 6, 1, 4, 5], "dtype": dt, "cls": cls, "shape": shape, "ftype": "d8",
                    "getitem": [0, 5, -1, -6, 6, -7], "pit": None, "nnodes": None}
            check_ctor(ctx, base)
            check_ctor(ctx, dict(base, ds=[1, 0, 6, 1, 0, 1]))                  # no pit
            check_ctor(ctx, dict(base, ds=[0], shape=[1, 1]))                   # size 1
            check_ctor(ctx, dict(base, ds=[], shape=[0, 0]))                    # size 0
            check_ctor(ctx, dict(base, pit=[]))                                 # empty pit array given
            if cls == "raster":
                check_ctor(ctx, dict(base, ftype="d4"))
                check_ctor(ctx, dict(base, shape=[3, 3]))
                check_ctor(ctx, dict(base, shape=[6]))                          # not 2-D: ValueError (was TypeError, F-X2b)
                check_ctor(ctx, dict(base, shape=[1, 2, 3]))
                check_ctor(ctx, dict(base, shape=[]))
                check_ctor(ctx, dict(base, transform=[1.0, 0.0, 0.0]))
    check_dtype(ctx)
    d8 = {"op": "c03x_from_array", "fmt": "d8", "shape": [2, 3], "codes": [1, 2, 247, 128, 255, 64], "ft": "d8", "check": True}
    check_from_array(ctx, d8)
    check_from_array(ctx, dict(d8, codes=[1, 1, 1, 0, 16, 16]))                  # one edge pit, one outlet
    check_from_array(ctx, dict(d8, codes=[1, 1, 0, 0, 16, 16], mask=[1, 1, 0, 1, 1, 1], mshape=[2, 3]))   # the outlet is masked out
    check_from_array(ctx, {"op": "c03x_from_array", "fmt": "ldd", "shape": [1, 3], "codes": [6, 5, 6], "ft": "infer"})
    check_from_array(ctx, {"op": "c03x_from_array", "fmt": "nextxy", "shape": [1, 4], "xs": [2, -9, 3, 4], "ys": [1, -9, 1, -10],
                           "ft": "nextxy", "check": True, "form": "tuple"})      # outlet, self-pointing pit, y-code-only pit


def run(ctx):
    rng = ctx.rng
    quick = ctx.tier == "quick"
    if ctx.replay:
        d = ctx.replay.get("failure", {}).get("desc") or (ctx.replay.get("model_mismatches") or [{}])[0].get("desc")
        d = (d or {}).get("x")
        if d and d.get("op") in CHECKS:
            d = dict(d)
            if d["op"] in ("c03x_locidx", "c03x_from_array", "c03x_first_count"):
                d.pop("ds", None)
            CHECKS[d["op"]](ctx, d)
        elif d and d.get("op") == "c03x_dtype":
            check_dtype(ctx)
        return
    corpus(ctx)
    ctx.flush()
    k = (1 if quick else 12) * ctx.escalate
    for _ in range(220 * k):
        check_locidx(ctx, gen_locidx(rng))
    ctx.flush()
    for _ in range(260 * k):
        check_ctor(ctx, gen_ctor(rng))
    ctx.flush()
    for _ in range(220 * k):
        check_from_array(ctx, gen_from_array(rng, ctx))
        if len(ctx.cases) > 400:
            ctx.flush()
    ctx.flush()
    for _ in range(160 * k):
        check_dump(ctx, gen_dump(rng))
        if len(ctx.cases) > 400:
            ctx.flush()
    ctx.flush()
    for _ in range(200 * k):
        check_first_count(ctx, gen_first_count(rng, ctx))
        if len(ctx.cases) > 400:
            ctx.flush()
    ctx.flush()
