"""C02 - re-encoding and cross-format conversion preserve the drainage graph.

Networks come (a) from decoded legal rasters of each source format (C01's generators: loops, all-pit,
nodata, off-grid pointers, pit variants, NEXTXY long links) and (b) from arbitrary idxs_ds arrays handed to
FlwdirRaster with the four index dtypes (D8 networks from DEMs, forests and functional graphs laid on a raster:
non-8-neighbour links). Every network is exported to all three formats with the real FlwdirRaster.to_array,
re-parsed with the real pyflwdir.from_array, and compared with the declarative encoding / canonical form
computed in Lean (`spec`) and with the loop-for-loop model (`model`). d8_to_ldd / ldd_to_d8 are checked for
meaning preservation (certificate evaluated in Lean on the implementation's output) and against conversion
through the graph.

Decoded sources are also parsed with the documented user `mask=` of pyflwdir.from_array (True / non-zero = valid
cell) where the mask CUTS flow paths: rectangular windows, the upstream part of a basin (with / without the cell it
drains through), everything but such a part, random masks, the complement of one cell; 2-D bool / uint8 / int64
masks. The network parsed under a mask is the network of the raster restricted to the kept cells (harness' own
brute-force reading of the raster): excluded cells are nodata, no link enters an excluded cell (a kept cell whose
downstream cell is excluded is a pit), idxs_pit = the self-draining cells; all exports + re-parses must reproduce
it and the export to the source format is the canonical form (Lean) of the raster with the excluded cells set to
nodata.

Decoded sources are also parsed the way most callers do: with the default ftype="infer". The documented reading is
the first of d8, ldd, nextxy whose container / value set the raster satisfies (C01), so a raster whose code set is
legal in more than one format (uint8 rasters over {1, 2, 4, 8, 255}: D8 E/SE/S/SW + secondary pit code, LDD SW/S/W/N +
nodata) is a D8 raster. Such sources are generated on purpose (uniform over the shared codes, D8 hillslopes draining
east / south with off-grid outlets and 255 pits, LDD rasters over the shared codes; mostly small shapes, where they
also arise by chance) next to sources that are legal in one format only. The inferred parse must report that format,
hold the network of the harness' own brute-force reading of the raster in that format and of the parse with the format
given explicitly, and all exports / re-parses / the canonical export to that format are judged as for explicit parses.
"""
import numpy as np
from common import canon_idx, ints, exc_class, gen_shape, gen_raster_net, ds_to_np
from props.c01 import (rand_tab, rand_xy, TAB_STYLES, XY_STYLES, ALPHA, FT_CODE, build_data, enum_tab_cases,
                       enum_xy_cases, DIRS, NODATA, PITS, MASK_DTYPES)

OPS = ["FlwdirRaster.to_array(d8)", "FlwdirRaster.to_array(ldd)", "FlwdirRaster.to_array(nextxy)",
       "from_array(to_array(.))", "core_conversion.d8_to_ldd", "core_conversion.ldd_to_d8"]
RULE = ("source networks: decoded legal rasters of D8 / LDD / NEXTXY (uniform, few-nodata, direction-only = loops and "
        "off-grid pointers, DEM-derived, all-pit, pit variants; NEXTXY neighbours / any cell / self / outside / into "
        "nodata) and arbitrary idxs_ds (DEM networks, forests, functional graphs with loops) with index dtypes int32, "
        "int64, uint32, uint64; each exported to the three formats and re-parsed; enumeration of every code at every "
        "cell of small shapes for the canonicalisation; remap on random legal arrays and the full alphabets; "
        "decoded sources also parsed with a user mask= that cuts flow paths (window, upstream part of a basin with / "
        "without its exit cell, complement of such a part, random, all-but-one-cell, full; 2-D bool / uint8 / int64). "
        "decoded sources also parsed with the default ftype='infer' (judged by the documented order d8, ldd, nextxy: "
        "reported format, harness' own reading, explicit parse, canonical export), including sources whose code set is "
        "legal as D8 and LDD (uniform over {1,2,4,8,255}, directions only, D8 hillslopes to the east / south with off-grid "
        "outlets and 255 pits; d8- and ldd-labelled; small shapes). "
        "non-trivial = >= 2 valid cells, >= 1 non-pit link and (valid border cell or nodata neighbour or pit variant)")
FMTS = ["d8", "ldd", "nextxy"]
DTYPES = {"int32": np.int32, "int64": np.int64, "uint32": np.uint32, "uint64": np.uint64}


def raster_out(R, fmt):
    """flat python lists of an exported raster"""
    if fmt == "nextxy":
        return {"xs": ints(R[0]), "ys": ints(R[1])}
    return {"codes": ints(R)}


def nontrivial_ds(ds, shape, variant=False):
    r, c = shape
    n = r * c
    valid = [i for i in range(n) if ds[i] != n]
    if len(valid) < 2 or not any(ds[i] != i for i in valid):
        return False
    if variant:
        return True
    for i in valid:
        ri, ci = divmod(i, c)
        if ri in (0, r - 1) or ci in (0, c - 1):
            return True
        for dr in (-1, 0, 1):
            for dc in (-1, 0, 1):
                if ds[(ri + dr) * c + ci + dc] == n:
                    return True
    return False


# ----------------------------------------------------------------------------------------
# user masks: harness' own reading of a legal source raster restricted to the kept cells
# ----------------------------------------------------------------------------------------
MASK_FAMILIES = ["window", "window", "upstream", "upstream", "upstream_open", "downstream", "random", "random",
                 "but_one", "full"]


def raw_targets(desc):
    """per cell: None = nodata cell, -1 = pit (pit code, pointer to itself or off the raster), else the index of
    the cell the raster's code points at (which may itself be nodata / excluded)"""
    r, c = desc["shape"]
    fmt = desc["fmt"]
    out = []
    for i in range(r * c):
        ri, ci = divmod(i, c)
        if fmt == "nextxy":
            x, y = desc["xs"][i], desc["ys"][i]
            if x == NODATA[fmt]:
                out.append(None)
                continue
            if x in PITS[fmt] or y in PITS[fmt]:
                out.append(-1)
                continue
            r1, c1 = y - 1, x - 1
        else:
            v = desc["codes"][i]
            if v == NODATA[fmt]:
                out.append(None)
                continue
            if v in PITS[fmt]:
                out.append(-1)
                continue
            r1, c1 = ri + DIRS[fmt][v][0], ci + DIRS[fmt][v][1]
        j = r1 * c + c1 if (0 <= r1 < r and 0 <= c1 < c) else -1
        out.append(-1 if j == i else j)
    return out


def restricted_graph(tg, keep):
    """the graph of the raster restricted to the kept cells: ds (n = nodata / excluded), a kept valid cell whose
    target is missing (pit, nodata, excluded) drains to itself"""
    n = len(tg)
    ok = [tg[i] is not None and bool(keep[i]) for i in range(n)]
    return [n if not ok[i] else (i if tg[i] < 0 or not ok[tg[i]] else tg[i]) for i in range(n)]


def rand_cut_mask(rng, desc, ctx):
    """adds mask (flat, 0 = excluded) and mask_dtype to a convert desc; families that cut flow paths"""
    r, c = desc["shape"]
    n = r * c
    tg = raw_targets(desc)
    fam = rng.choice(MASK_FAMILIES)
    keep = [1] * n
    if fam in ("upstream", "upstream_open", "downstream"):
        g = restricted_graph(tg, keep)
        ups = [[] for _ in range(n)]
        for i, d in enumerate(g):
            if d != n and d != i:
                ups[d].append(i)
        cands = [i for i in range(n) if ups[i]]
        if not cands:
            fam = "window"
        else:
            k = rng.choice(cands)
            part, todo = {k}, [k]
            while todo:                      # loops are finite: visited set
                for u in ups[todo.pop()]:
                    if u not in part:
                        part.add(u)
                        todo.append(u)
            if fam == "upstream_open":       # without the cell the part drains through
                part.discard(k)
            keep = [int((i in part) != (fam == "downstream")) for i in range(n)]
    if fam == "window":
        r0, r1 = sorted((rng.randrange(r), rng.randrange(r)))
        c0, c1 = sorted((rng.randrange(c), rng.randrange(c)))
        if (r1 - r0 + 1) * (c1 - c0 + 1) == n:      # not the whole raster: drop one edge row / column
            if c > 1:
                c0, c1 = (c0 + 1, c1) if rng.random() < 0.5 else (c0, c1 - 1)
            else:
                r0, r1 = (r0 + 1, r1) if rng.random() < 0.5 else (r0, r1 - 1)
        keep = [int(r0 <= i // c <= r1 and c0 <= i % c <= c1) for i in range(n)]
    elif fam == "random":
        p = rng.choice([0.5, 0.75, 0.9])
        keep = [int(rng.random() < p) for _ in range(n)]
    elif fam == "but_one":
        keep[rng.randrange(n)] = 0
    desc["mask_dtype"] = rng.choice(["bool", "bool", "uint8", "int64"])
    top = 1 if desc["mask_dtype"] == "bool" else 3
    desc["mask"] = [rng.randint(1, top) if k else 0 for k in keep]
    ctx.count("mask:" + fam)
    ctx.count("mask:dtype:" + desc["mask_dtype"])


SHARED_CODES = sorted(set(ALPHA["d8"]) & set(ALPHA["ldd"]))      # legal in both uint8 formats


def legal_formats(desc):
    """harness' own reading of the value sets: the formats (in the documented order of inference) whose container and
    value set the source raster satisfies. NEXTXY sources are int32 (2, nrow, ncol) containers: never D8 / LDD."""
    if desc["fmt"] == "nextxy":
        return ["nextxy"]
    return [f for f in ("d8", "ldd") if all(v in ALPHA[f] for v in desc["codes"])]


def shared_codes_raster(rng, shape, style):
    """uint8 rasters whose code set is legal as D8 and as LDD"""
    r, c = shape
    n = r * c
    if style == "uniform":
        return [rng.choice(SHARED_CODES) for _ in range(n)]
    if style == "directions":        # no 255 at all: as D8 every outlet leaves the raster, as LDD there is no nodata
        return [rng.choice([1, 2, 4, 8]) for _ in range(n)]
    # D8 hillslope draining east / south-east / south / south-west: links stay inside the raster except at a few
    # outlets (pointer off the raster or the pit code 255)
    out = []
    for i in range(n):
        ri, ci = divmod(i, c)
        inside = [v for v, (dr, dc) in ((1, (0, 1)), (2, (1, 1)), (4, (1, 0)), (8, (1, -1)))
                  if 0 <= ri + dr < r and 0 <= ci + dc < c]
        u = rng.random()
        out.append(255 if (u < 0.08 or not inside) and rng.random() < 0.7 else
                   rng.choice(inside) if inside and u < 0.95 else rng.choice([1, 2, 4, 8]))
    return out


def export_all(ctx, flw, shape):
    """run the implementation: export to every format, re-parse; returns per-format observation"""
    from pyflwdir import pyflwdir as pf
    n = shape[0] * shape[1]
    obs = {}
    for y in FMTS:
        try:
            R = flw.to_array(y)
        except Exception as e:  # noqa: BLE001
            obs[y] = ("err", exc_class(e), repr(e)[:100])
            ctx.count(f"export:{y}:{exc_class(e)}")
            continue
        ok_type = (R.dtype == (np.int32 if y == "nextxy" else np.uint8)
                   and tuple(R.shape) == ((2,) + tuple(shape) if y == "nextxy" else tuple(shape)))
        try:
            f2 = pf.from_array(R, ftype=y)
            rt = ("ok", canon_idx(f2.idxs_ds, n), sorted(canon_idx(f2.idxs_pit, n)))
            try:
                inferred = pf.from_array(R).ftype
            except Exception as e:  # noqa: BLE001
                inferred = "err:" + exc_class(e)
        except Exception as e:  # noqa: BLE001
            rt = ("err", exc_class(e), repr(e)[:100])
            inferred = None
        obs[y] = ("ok", raster_out(R, y), ok_type, rt, inferred)
        ctx.count(f"export:{y}:ok")
    return obs


def judge_exports(ds, pits, obs, answers, src=None):
    """answers: dict fmt -> driver answer of c02.to_array"""
    fs = []
    for y in FMTS:
        a = answers[y]
        if "__err__" in a:
            fs.append({"kind": "model", "what": "driver error " + a["__err__"]})
            continue
        o = obs[y]
        key = ("xs", "ys") if y == "nextxy" else ("codes",)
        if a["spec.err"] == [1]:
            # some link is not an 8-neighbour link: the documented ValueError, never a wrong raster
            if o[:2] != ("err", "ValueError"):
                fs.append({"kind": "spec", "what": f"to_array({y}) of a network with a non-8-neighbour link must raise "
                           f"ValueError", "impl": o[:2]})
            if a["model.err"] != [1]:
                fs.append({"kind": "model", "what": f"to_array({y}): Lean model does not raise"})
            continue
        if o[0] == "err":
            fs.append({"kind": "spec", "what": f"to_array({y}) raised {o[1]} on a network whose links join 8-neighbours",
                       "impl": o})
            continue
        _, R, ok_type, rt, inferred = o
        spec = {k: a["spec." + k] for k in key}
        model = {k: a["model." + k] for k in key}
        if R != spec:
            fs.append({"kind": "spec", "what": f"to_array({y}) differs from the declarative encoding of the graph",
                       "impl": R, "spec": spec})
        if not ok_type:
            fs.append({"kind": "spec", "what": f"to_array({y}) returned a raster of the wrong dtype or shape"})
        if a["model.err"] != [0] or R != model:
            fs.append({"kind": "model", "what": f"to_array({y}): implementation != Lean model", "impl": R, "model": model})
        if rt[0] != "ok":
            fs.append({"kind": "spec", "what": f"re-parsing the {y} export raised {rt[1]}", "impl": rt})
        else:
            if rt[1] != ds:
                fs.append({"kind": "spec", "what": f"from_array(to_array({y})) is not the identical graph "
                           f"(downstream cells / nodata cells differ)", "impl": rt[1], "expected": ds})
            if rt[2] != pits:
                fs.append({"kind": "spec", "what": f"from_array(to_array({y})) reports different pits",
                           "impl": rt[2], "expected": pits})
            if (rt[1], sorted(rt[2])) != (a["model.rt.ds"], sorted(a["model.rt.pits"])):
                fs.append({"kind": "model", "what": f"round trip through {y}: implementation != Lean model"})
        if inferred is not None and inferred != y and not (y == "ldd" and inferred == "d8"):
            # an LDD export over {1,2,4,8,255} is also a legal D8 raster (C01: first valid format wins)
            fs.append({"kind": "spec", "what": f"the {y} export is not recognised as {y} by type inference: {inferred}"})
    return fs


def requests_for(ds, shape):
    return [("c02.to_array", {"ds": ds, "nrow": shape[0], "ncol": shape[1], "ft": FT_CODE[y]}) for y in FMTS]


def run_convert(ctx, desc):
    """source = legal raster of format desc['fmt']"""
    from pyflwdir import pyflwdir as pf
    shape = tuple(desc["shape"])
    n = shape[0] * shape[1]
    desc_in = desc          # the case as generated (the replay); below `desc` is the raster in the format it is read in
    src = desc["fmt"]
    data = build_data({**desc, "form": "array"})
    kw, tg, exp_ds, cuts = {}, None, None, False
    infer = desc.get("ft") == "infer"
    legal = legal_formats(desc)
    if infer:
        # parsed with the default ftype="infer": the raster is, by the documented order, a raster of the first format
        # whose value set it satisfies - from here on that is the source format (reading, canonical form)
        fkw = {}
        src = legal[0]
        ctx.count(f"feature:parsed-by-inference:{desc['fmt']}-source:" +
                  ("code set legal as " + " and ".join(legal) if len(legal) > 1 else "legal in one format only"))
        if src != desc["fmt"]:
            ctx.count(f"feature:parsed-by-inference:{desc['fmt']}-source-is-a-{src}-raster-by-the-documented-order")
        desc = {**desc, "fmt": src}
    else:
        fkw = {"ftype": src}
        if len(legal) > 1:
            ctx.count("feature:explicit-ftype:code set legal as " + " and ".join(legal))
    if desc.get("mask") is not None:
        # documented user mask (2-D, True / non-zero = valid cell); the parsed network is the raster's network
        # restricted to the kept cells
        kw["mask"] = np.array(desc["mask"], dtype=MASK_DTYPES[desc.get("mask_dtype", "bool")]).reshape(shape)
        tg = raw_targets(desc)
        exp_ds = restricted_graph(tg, desc["mask"])
        cuts = any(t is not None and t >= 0 and desc["mask"][i] and tg[t] is not None and not desc["mask"][t]
                   for i, t in enumerate(tg))
        ctx.count("mask:cuts-a-flow-path" if cuts else "mask:cuts-nothing")
    try:
        flw = pf.from_array(data, **fkw, **kw)
    except ValueError as e:
        if infer:
            # the only documented rejections are the ones of the explicit parse (no pit / size <= 1)
            try:
                pf.from_array(data, ftype=src, **kw)
                ctx.evaluations += 1
                ctx.fail(desc_in, "spec", f"from_array(ftype='infer') raised {exc_class(e)} on a legal {src} raster that "
                         f"from_array(ftype='{src}') accepts: {e!r}"[:220])
                return
            except ValueError:
                pass
        if exp_ds is not None and n > 1 and any(exp_ds[i] == i for i in range(n)):
            ctx.evaluations += 1
            ctx.fail(desc_in, "spec", f"from_array(mask=) of a legal {src} raster whose kept part has a pit raised "
                     f"{exc_class(e)}: {e!r}"[:220])
            return
        ctx.count("source-rejected(no pit / size<=1)")
        return
    except Exception as e:  # noqa: BLE001
        ctx.evaluations += 1
        ctx.fail(desc_in, "spec", f"from_array of a legal {src} raster raised {exc_class(e)}: {e!r}"[:200])
        return
    ds = canon_idx(flw.idxs_ds, n)
    pits = sorted(canon_idx(flw.idxs_pit, n))
    pre = []
    if exp_ds is not None:
        open_links = [i for i in range(n) if ds[i] != n and ds[ds[i]] == n]
        if open_links:
            pre.append({"kind": "spec", "what": "network parsed with mask= is not closed: kept cells link into "
                        "excluded / nodata cells instead of being pits", "cells": open_links[:10],
                        "impl": [ds[i] for i in open_links[:10]]})
        if [int(d != n) for d in ds] != [int(d != n) for d in exp_ds]:
            pre.append({"kind": "spec", "what": "valid cells of the network parsed with mask= are not the kept "
                        "non-nodata cells", "impl": [int(d != n) for d in ds], "expected": [int(d != n) for d in exp_ds]})
        elif ds != exp_ds:
            pre.append({"kind": "spec", "what": "network parsed with mask= is not the raster's network restricted to "
                        "the kept cells", "impl": ds, "expected": exp_ds})
        if pits != [i for i in range(n) if ds[i] == i]:
            pre.append({"kind": "spec", "what": "idxs_pit of the network parsed with mask= are not its self-draining "
                        "cells", "impl": pits, "expected": [i for i in range(n) if ds[i] == i]})
    if infer:
        own = exp_ds if exp_ds is not None else restricted_graph(raw_targets(desc), [1] * n)
        if flw.ftype != src:
            pre.append({"kind": "spec", "what": f"from_array(ftype='infer') reads a raster that satisfies the value set(s) of "
                        f"{' and '.join(legal)} as {flw.ftype}; documented: the first of d8, ldd, nextxy it satisfies",
                        "impl": flw.ftype, "expected": src})
        if ds != own:
            pre.append({"kind": "spec", "what": f"network parsed with ftype='infer' is not the network of the raster read as {src} "
                        f"(harness' own reading" + (", restricted to the kept cells)" if exp_ds is not None else ")"),
                        "impl": ds, "expected": own})
        try:
            fx = pf.from_array(data, ftype=src, **kw)
            gx = (canon_idx(fx.idxs_ds, n), sorted(canon_idx(fx.idxs_pit, n)))
            if gx != (ds, pits):
                pre.append({"kind": "spec", "what": f"parsing with ftype='infer' and with ftype='{src}' give different networks",
                            "impl": [ds, pits], "expected": list(gx)})
        except Exception as e:  # noqa: BLE001
            pre.append({"kind": "spec", "what": f"from_array(ftype='{src}') raised {exc_class(e)} on a raster that from_array("
                        f"ftype='infer') parses as {flw.ftype}"})
    from common import aged
    # the exported object may have answered other queries before (loop-safe ones: sources may contain loops)
    flw = aged(flw, p=0.45, loopfree=False)
    obs = export_all(ctx, flw, shape)
    reqs = requests_for(ds, shape)
    cargs = {"nrow": shape[0], "ncol": shape[1], "ft": FT_CODE[src]}
    # canonical form of the source raster with the excluded cells set to nodata (identity without a mask)
    keep = desc.get("mask") or [1] * n
    if src == "nextxy":
        cargs.update(xs=[x if k else NODATA[src] for x, k in zip(desc["xs"], keep)],
                     ys=[y if k else NODATA[src] for y, k in zip(desc["ys"], keep)])
    else:
        cargs.update(codes=[v if k else NODATA[src] for v, k in zip(desc["codes"], keep)])
    reqs.append(("c02.canon", cargs))

    def judge(ans):
        fs = pre + judge_exports(ds, pits, obs, dict(zip(FMTS, ans[:3])), src)
        c = ans[3]
        if "__err__" in c:
            return fs + [{"kind": "model", "what": "driver error " + c["__err__"]}]
        key = ("xs", "ys") if src == "nextxy" else ("codes",)
        o = obs[src]
        if o[0] != "ok":
            fs.append({"kind": "spec", "what": f"export of a decoded {src} raster to its own format raised {o[1]}", "impl": o})
        else:
            spec = {k: c["spec." + k] for k in key}
            model = {k: c["model." + k] for k in key}
            if o[1] != spec:
                fs.append({"kind": "spec", "what": f"export to the source format {src} is not the source raster up to "
                           f"the documented canonicalisation", "impl": o[1], "spec": spec})
            if c["model.err"] != [0] or o[1] != model:
                fs.append({"kind": "model", "what": f"canonical export {src}: implementation != Lean model",
                           "impl": o[1], "model": model})
        return fs

    variant = (src == "d8" and 255 in desc["codes"]) or (src == "nextxy" and -10 in desc["xs"])
    ctx.add(desc_in, reqs, judge, nontrivial=nontrivial_ds(ds, shape, variant) and (exp_ds is None or cuts))


def run_export(ctx, desc):
    """source = arbitrary idxs_ds with a chosen index dtype"""
    from pyflwdir.pyflwdir import FlwdirRaster
    shape = tuple(desc["shape"])
    n = shape[0] * shape[1]
    ds = desc["ds"]
    try:
        flw = FlwdirRaster(idxs_ds=ds_to_np(ds, DTYPES[desc["dtype"]]), shape=shape, ftype=desc["ftype"])
    except ValueError:
        ctx.count("ctor-rejected(no pit)")
        return
    pits = [i for i in range(n) if ds[i] == i]
    obs = export_all(ctx, flw, shape)

    def judge(ans):
        fs = judge_exports(ds, pits, obs, dict(zip(FMTS, ans)))
        if sorted(canon_idx(flw.idxs_pit, n)) != pits:
            fs.append({"kind": "spec", "what": "idxs_pit of the constructed object are not the self-draining cells"})
        return fs

    ctx.add(desc, requests_for(ds, shape), judge, nontrivial=nontrivial_ds(ds, shape))


def run_remap(ctx, desc):
    from pyflwdir import core_conversion, core_d8, core_ldd
    from pyflwdir import pyflwdir as pf
    shape = tuple(desc["shape"])
    n = shape[0] * shape[1]
    arr = np.array(desc["codes"], dtype=np.uint8).reshape(shape)
    d = desc["dir"]
    f, csrc, cdst, src, dst = ((core_conversion.d8_to_ldd, core_d8, core_ldd, "d8", "ldd") if d == 0 else
                               (core_conversion.ldd_to_d8, core_ldd, core_d8, "ldd", "d8"))
    try:
        out = f(arr)
        impl = ints(out)
        shape_ok = tuple(np.shape(out)) == shape
        g_src = csrc.from_array(arr, dtype=np.int32)
        g_dst = cdst.from_array(np.asarray(out).astype(np.uint8), dtype=np.int32)
    except Exception as e:  # noqa: BLE001
        ctx.evaluations += 1
        ctx.fail(desc, "spec", f"{src}_to_{dst} or decoding its result raised {exc_class(e)}: {e!r}"[:200])
        return
    same_graph = (canon_idx(g_src[0], n) == canon_idx(g_dst[0], n) and
                  sorted(canon_idx(g_src[1], n)) == sorted(canon_idx(g_dst[1], n)))
    # conversion through the graph (object API), compared after canonicalisation
    via = None
    try:
        via_graph = ints(pf.from_array(arr, ftype=src).to_array(dst))
        via_remap = ints(pf.from_array(np.asarray(out).astype(np.uint8), ftype=dst).to_array(dst))
        via = (via_graph, via_remap)
    except Exception as e:  # noqa: BLE001
        ctx.count("remap:object-rejected:" + exc_class(e))

    def judge(ans):
        a = ans[0]
        if "__err__" in a:
            return [{"kind": "model", "what": "driver error " + a["__err__"]}]
        fs = []
        if a["spec.meaning_ok"] != [1] or not shape_ok:
            fs.append({"kind": "spec", "what": f"{src}_to_{dst} changes the meaning of a code (direction / pit / nodata)",
                       "impl": impl})
        if not same_graph:
            fs.append({"kind": "spec", "what": f"decoding the {src}_to_{dst} remapped raster gives another graph than "
                       f"decoding the source"})
        if via is not None and via[0] != via[1]:
            fs.append({"kind": "spec", "what": f"{src}_to_{dst} disagrees with conversion through the graph "
                       f"(after canonicalisation)", "via_graph": via[0], "via_remap": via[1]})
        if impl != a["model.out"]:
            fs.append({"kind": "model", "what": f"{src}_to_{dst}: implementation != Lean model", "impl": impl,
                       "model": a["model.out"]})
        return fs

    ctx.add(desc, [("c02.remap", {"dir": d, "codes": desc["codes"], "impl": impl})], judge,
            nontrivial=n >= 2 and len(set(desc["codes"])) >= 2)


def dispatch(ctx, desc):
    {"convert": run_convert, "export": run_export, "remap": run_remap}[desc["op"]](ctx, desc)


def run(ctx):
    rng = ctx.rng
    if getattr(ctx, "replay", None):
        d = ctx.replay.get("failure", {}).get("desc") or ctx.replay.get("desc")
        if d:
            dispatch(ctx, d)
            return
    quick = ctx.tier == "quick"
    full_enum = (not quick) or ctx.escalate > 1

    # 1. remap on the complete alphabets (one array each) and on random legal arrays
    for d, fmt in ((0, "d8"), (1, "ldd")):
        dispatch(ctx, {"op": "remap", "dir": d, "shape": [1, len(ALPHA[fmt])], "codes": list(ALPHA[fmt])})
    # 2. enumeration: every code at every cell of the small shapes (canonicalisation, round trip)
    enum = []
    for fmt in ("d8", "ldd"):
        enum += list(enum_tab_cases(rng, fmt))
    enum += list(enum_xy_cases(rng))
    if not full_enum:
        enum = [d for d in enum if rng.random() < 0.2]
    for d in enum:
        d["op"] = "convert"
        d.pop("form", None)
        ctx.count("enum:" + d["fmt"])
        dispatch(ctx, d)
        if rng.random() < 0.1:
            dm = dict(d)
            rand_cut_mask(rng, dm, ctx)
            dispatch(ctx, dm)
        if rng.random() < (0.5 if len(legal_formats(d)) > 1 else 0.05):
            dispatch(ctx, dict(d, ft="infer"))       # the same source parsed with the default ftype="infer"
        if len(ctx.cases) > 300:
            ctx.flush()

    # 2b. sources whose code set is legal in more than one format (small shapes first: there they also arise by
    # chance), parsed with the default ftype="infer", with an explicit ftype, and under a user mask
    small = [(1, 1), (1, 2), (2, 1), (1, 3), (3, 1), (2, 2), (2, 3), (3, 2), (3, 3), (1, 4), (4, 1)]
    for k in range((60 if quick else 400) * ctx.escalate):
        shape = rng.choice(small) if rng.random() < 0.5 else gen_shape(rng, max_cells=30, max_side=7)
        style = rng.choice(["uniform", "directions", "hillslope", "hillslope"])
        fmt = rng.choice(["d8", "d8", "ldd"])
        desc = {"op": "convert", "fmt": fmt, "shape": list(shape), "codes": shared_codes_raster(rng, shape, style)}
        ctx.count(f"convert:{fmt}:shared-codes:{style}")
        u = rng.random()
        if u < 0.7:
            desc["ft"] = "infer"
        if rng.random() < 0.25:
            rand_cut_mask(rng, desc, ctx)
        dispatch(ctx, desc)
        if len(ctx.cases) > 300:
            ctx.flush()

    nrand = (150 if quick else 5000) * ctx.escalate
    max_side = 9 if quick else 30
    for k in range(nrand):
        if quick or rng.random() < 0.85:
            shape = gen_shape(rng, max_cells=56, max_side=9)
        else:
            shape = (rng.randint(2, max_side), rng.randint(2, max_side))
        u = rng.random()
        if u < 0.45:      # decoded raster
            fmt = rng.choice(FMTS)
            desc = {"op": "convert", "fmt": fmt, "shape": list(shape)}
            if fmt == "nextxy":
                style = rng.choice([s for s in XY_STYLES if s != "all_nodata"])
                desc["xs"], desc["ys"] = rand_xy(rng, shape, style, ctx)
            else:
                style = rng.choice([s for s in TAB_STYLES if s != "all_nodata"])
                desc["codes"] = rand_tab(rng, fmt, shape, style)
            ctx.count(f"convert:{fmt}:{style}")
            if rng.random() < 0.45:   # the same source once more, parsed under a user mask (extra case)
                dm = dict(desc)
                rand_cut_mask(rng, dm, ctx)
                if rng.random() < 0.2:
                    dm["ft"] = "infer"
                dispatch(ctx, dm)
            if rng.random() < (0.6 if len(legal_formats(desc)) > 1 else 0.2):
                dispatch(ctx, dict(desc, ft="infer"))   # ... and with the default ftype="infer" (extra case)
        elif u < 0.80:    # arbitrary idxs_ds, chosen dtype
            ds, shape, fam = gen_raster_net(rng, max_cells=56 if quick else 400, loopfree=False)
            desc = {"op": "export", "shape": list(shape), "ds": ds, "dtype": rng.choice(list(DTYPES)),
                    "ftype": rng.choice(FMTS)}
            ctx.count("export:family:" + fam)
            ctx.count("export:dtype:" + desc["dtype"])
        else:
            d = rng.randint(0, 1)
            fmt = "d8" if d == 0 else "ldd"
            desc = {"op": "remap", "dir": d, "shape": list(shape),
                    "codes": rand_tab(rng, fmt, shape, rng.choice(TAB_STYLES))}
            ctx.count("remap:" + fmt)
        dispatch(ctx, desc)
        if len(ctx.cases) > 300:
            ctx.flush()
