"""C08_fn - translator tie for more kernels (`harness/extract_fn.py`, fragment 2b -> `lean/PfVerif/Generated/Sweeps2.lean`,
obligations `gen_*_eq_model` and the transported C08 theorems in `Props/C08_fn.lean`).

(a) **translator self-test** (trusted code, tested on every run): a synthetic package with every NEW construct of
    fragment 2b (tuple assignment from two reads incl. a swap, `a[i] += 1` on one of two state arrays, optional mask,
    an initialisation that calls a translated kernel of a sibling module with positional / keyword arguments, list-append
    scans over `range` / `seq` returned through `np.array(lst, dtype)`) is translated, the emitted defs are *evaluated
    by Lean itself* (`lake env lean --run`) on random small arrays and compared with Python's evaluation of the same
    source; functions outside the fragment must be REFUSED, and fragment 2 (without `ext`) must keep refusing the new
    constructs. A failure raises (BROKEN, exit 2) - never a VIOLATION.
(b) **generated defs of the real kernels vs the real kernels** (`streams.strahler_order`, `streams.stream_order`,
    `core.pit_indices`, `basins._tributaries`) on ~100 random small networks in the same Lean run (`model` failure).
(c) **differential** through the driver (`c08fn.orders`, `c08fn.scans`): real kernels vs the hand-written models
    (`model.*`) and vs independent declarative definitions (`spec.*`: Strahler recursion over the upstream tree, classic
    order by the downstream walk with brute-force inflow counts; pit list / tributary list by comprehension in the
    harness). implementation != spec -> `spec` failure (replayable failing input), == spec but != model -> `model`.
Orders are compared as unbounded integers on networks far below 255 (uint8 storage: C16_val / F08).
A kernel that is absent from the tree under check is counted and skipped.
"""
import importlib
import inspect
import os
import subprocess
import sys
import types
import warnings

import numpy as np

HERE = os.path.dirname(os.path.abspath(__file__))
sys.path.insert(0, os.path.dirname(HERE))
sys.path.insert(0, HERE)
import extract_fn  # noqa: E402
from extract_fn import ARRI, ARRN, INT, NAT, OPTB, SEQ, LSTN  # noqa: E402,F401
from common import LEAN_DIR, REPO, ds_to_np, gen_forest, gen_funcgraph, net_features  # noqa: E402
import c04_fn as base  # noqa: E402  (larg / flat / rand_topo / rand_field: shared helpers, no state)

OPS = ["streams.strahler_order", "streams.stream_order", "core.pit_indices", "basins._tributaries",
       "harness/extract_fn.py fragment 2b (self-test)"]
RULE = ("C08_fn: translator self-test (4 synthetic kernels x 25 random inputs evaluated by Lean vs Python, functions "
        "outside fragment 2b that must be refused, fragment 2 must refuse the new constructs); generated defs of the 4 "
        "real kernels vs the real kernels on ~100 random small networks (Lean-evaluated); differential on random forests "
        "(n <= 14, random topological orders, masks none / downstream-closed / a few arbitrary, main-upstream arrays from "
        "random upstream areas) against model.* and the declarative spec.*. non-trivial = network with >= 1 confluence")

# ----------------------------------------------------------------------------------------
# (a) translator self-test
# ----------------------------------------------------------------------------------------
SIB = '''
import numpy as np

def count_up(idxs_ds, mv, mask=None):
    cnt = np.full(idxs_ds.size, 0, dtype=np.int32)
    for i in range(idxs_ds.size):
        d = idxs_ds[i]
        if d != mv and d != i and (mask is None or mask[i]):
            cnt[d] += 1
    return cnt

def not_listed(idxs_ds, mv, mask=None):
    cnt = np.full(idxs_ds.size, 0, dtype=np.int32)
    for i in range(idxs_ds.size):
        cnt[i] += 1
    return cnt
'''
SIB_SWEEPS = [("count_up", "sib.py", "count_up", {"idxs_ds": ARRN, "mv": NAT, "mask": OPTB})]
SIB_KCALLS = {("sib", "count_up"): "count_up", ("sib", "gone"): "gone"}

SYN_OK = '''
import numpy as np
from . import sib

def s_tuple(idxs_ds, seq, data, mask=None):
    """two state arrays, tuple assignment from two reads, a swap (right-hand sides before binding), `a[i] += 1`, mask"""
    hi = np.full(idxs_ds.size, 0, dtype=np.int64)
    lo = np.full(idxs_ds.size, 0, dtype=np.int64)
    for i in seq[::-1]:
        if mask is not None and not mask[i]:
            continue
        d = idxs_ds[i]
        x, y = data[i], hi[d]
        x, y = y, x - y
        if x < y:
            hi[d] = y
        elif x == y and lo[d] == x:
            hi[d] += 1
        a, b, ok = lo[d], hi[i] + 2 * x, x > 0
        if ok or a < b:
            lo[d] = b - a
    return hi, lo

def s_call(idxs_ds, seq, mv, mask=None):
    """an initialisation that calls a translated kernel of a sibling module (keywords in another order)"""
    cnt = sib.count_up(idxs_ds=idxs_ds, mask=mask, mv=mv)
    out = np.full(idxs_ds.size, 0, dtype=np.int64)
    for i in seq:
        d = idxs_ds[i]
        if cnt[d] > 1:
            out[i] = out[d] + cnt[i] + 1
        else:
            out[i] = out[d]
    return out

def s_call_pos(idxs_ds, seq, mv, mask=None):
    """the same callee with positional arguments"""
    cnt = sib.count_up(idxs_ds, mv, mask)
    out = np.zeros(idxs_ds.size, dtype=np.int64)
    for i in seq:
        out[i] = cnt[idxs_ds[i]] - cnt[i]
    return out

def s_append(idxs_ds, seq, data):
    """list-append scan over range: two appends on one path, an index expression appended"""
    lst = []
    for i in range(idxs_ds.size):
        if idxs_ds[i] == i:
            lst.append(i)
        elif data[i] > data[idxs_ds[i]]:
            lst.append(idxs_ds[i])
            lst.append(i + 1)
    return np.array(lst, dtype=idxs_ds.dtype)

def s_append2(idxs_ds, seq, data):
    """list-append scan over seq together with a written array; positional dtype"""
    lst = []
    seen = np.zeros(idxs_ds.size, dtype=np.int64)
    for i in seq:
        a, b = seen[idxs_ds[i]], data[i]
        if a >= b:
            continue
        seen[i] = a + 1
        lst.append(i)
    return np.array(lst, idxs_ds.dtype), seen
'''
_K = {"idxs_ds": ARRN, "seq": SEQ, "data": ARRI, "mask": OPTB, "mv": NAT}
def _k(*names):
    return {x: _K[x] for x in names}


SYN_OK_SPECS = [("s_tuple", _k("idxs_ds", "seq", "data", "mask")), ("s_call", _k("idxs_ds", "seq", "mv", "mask")),
                ("s_call_pos", _k("idxs_ds", "seq", "mv", "mask")), ("s_append", _k("idxs_ds", "seq", "data")),
                ("s_append2", _k("idxs_ds", "seq", "data"))]

SYN_BAD = '''
import numpy as np
from . import sib
from . import other
from . import twice
twice = 3

def helper(x):
    return x

def b_tuple_arity(idxs_ds, seq, data, mv, mask=None):
    out = data.copy()
    for i in seq:
        a, b = data[i], data[i], 1
        out[i] = a
    return out

def b_tuple_call(idxs_ds, seq, data, mv, mask=None):
    out = data.copy()
    for i in seq:
        a, b = helper(data[i])
        out[i] = a
    return out

def b_tuple_frozen(idxs_ds, seq, data, mv, mask=None):
    out = data.copy()
    k = 0
    for i in seq:
        k, b = data[i], 1
        out[i] = k
    return out

def b_tuple_loopvar(idxs_ds, seq, data, mv, mask=None):
    out = data.copy()
    for i in seq:
        i, b = idxs_ds[i], 1
        out[i] = 0
    return out

def b_tuple_nested(idxs_ds, seq, data, mv, mask=None):
    out = data.copy()
    for i in seq:
        (a, b), c = (data[i], 1), 2
        out[i] = a
    return out

def b_tuple_subscript_target(idxs_ds, seq, data, mv, mask=None):
    out = data.copy()
    for i in seq:
        out[i], b = data[i], 1
    return out

def b_tuple_repeat(idxs_ds, seq, data, mv, mask=None):
    out = data.copy()
    for i in seq:
        a, a = data[i], 1
        out[i] = a
    return out

def b_tuple_array(idxs_ds, seq, data, mv, mask=None):
    out = data.copy()
    for i in seq:
        a, b = data, 1
        out[i] = b
    return out

def b_call_default(idxs_ds, seq, data, mv, mask=None):
    cnt = sib.count_up(idxs_ds, mv)
    out = data.copy()
    for i in seq:
        out[i] = cnt[i]
    return out

def b_call_unlisted(idxs_ds, seq, data, mv, mask=None):
    cnt = sib.not_listed(idxs_ds, mv, mask)
    out = data.copy()
    for i in seq:
        out[i] = cnt[i]
    return out

def b_call_gone(idxs_ds, seq, data, mv, mask=None):
    cnt = sib.gone(idxs_ds, mv, mask)
    out = data.copy()
    for i in seq:
        out[i] = cnt[i]
    return out

def b_call_other_module(idxs_ds, seq, data, mv, mask=None):
    cnt = other.count_up(idxs_ds, mv, mask)
    out = data.copy()
    for i in seq:
        out[i] = cnt[i]
    return out

def b_call_rebound_module(idxs_ds, seq, data, mv, mask=None):
    cnt = twice.count_up(idxs_ds, mv, mask)
    out = data.copy()
    for i in seq:
        out[i] = cnt[i]
    return out

def b_call_wrong_kind(idxs_ds, seq, data, mv, mask=None):
    cnt = sib.count_up(data, mv, mask)
    out = data.copy()
    for i in seq:
        out[i] = cnt[i]
    return out

def b_call_value_as_mv(idxs_ds, seq, data, mv, mask=None):
    cnt = sib.count_up(idxs_ds, -1, mask)
    out = data.copy()
    for i in seq:
        out[i] = cnt[i]
    return out

def b_call_twice_kw(idxs_ds, seq, data, mv, mask=None):
    cnt = sib.count_up(idxs_ds, mv, mask, mv=mv)
    out = data.copy()
    for i in seq:
        out[i] = cnt[i]
    return out

def b_call_star(idxs_ds, seq, data, mv, mask=None):
    cnt = sib.count_up(*seq)
    out = data.copy()
    for i in seq:
        out[i] = cnt[i]
    return out

def b_call_in_loop(idxs_ds, seq, data, mv, mask=None):
    out = data.copy()
    for i in seq:
        cnt = sib.count_up(idxs_ds, mv, mask)
        out[i] = cnt[i]
    return out

def b_call_plain_name(idxs_ds, seq, data, mv, mask=None):
    cnt = helper(idxs_ds)
    out = data.copy()
    for i in seq:
        out[i] = cnt[i]
    return out

def b_list_literal(idxs_ds, seq, data, mv, mask=None):
    lst = [1]
    for i in seq:
        lst.append(i)
    return np.array(lst, dtype=idxs_ds.dtype)

def b_append_value(idxs_ds, seq, data, mv, mask=None):
    lst = []
    for i in seq:
        lst.append(data[i])
    return np.array(lst, dtype=idxs_ds.dtype)

def b_append_param(idxs_ds, seq, data, mv, mask=None):
    out = data.copy()
    for i in seq:
        seq.append(i)
        out[i] = 0
    return out

def b_append_two_args(idxs_ds, seq, data, mv, mask=None):
    lst = []
    for i in seq:
        lst.append(i, i)
    return np.array(lst, dtype=idxs_ds.dtype)

def b_list_return_raw(idxs_ds, seq, data, mv, mask=None):
    lst = []
    for i in seq:
        lst.append(i)
    return lst

def b_list_write(idxs_ds, seq, data, mv, mask=None):
    lst = []
    for i in seq:
        lst.append(i)
        lst[0] = i
    return np.array(lst, dtype=idxs_ds.dtype)

def b_list_read(idxs_ds, seq, data, mv, mask=None):
    lst = []
    out = data.copy()
    for i in seq:
        lst.append(i)
        out[lst[0]] = 1
    return out

def b_list_pop(idxs_ds, seq, data, mv, mask=None):
    lst = []
    for i in seq:
        lst.append(i)
        lst.pop()
    return np.array(lst, dtype=idxs_ds.dtype)

def b_list_extend(idxs_ds, seq, data, mv, mask=None):
    lst = []
    for i in seq:
        lst.extend(seq)
    return np.array(lst, dtype=idxs_ds.dtype)

def b_list_len(idxs_ds, seq, data, mv, mask=None):
    lst = []
    out = data.copy()
    for i in seq:
        lst.append(i)
        out[i] = len(lst)
    return out

def b_list_rebind(idxs_ds, seq, data, mv, mask=None):
    lst = []
    for i in seq:
        lst = []
        lst.append(i)
    return np.array(lst, dtype=idxs_ds.dtype)

def b_np_array_of_array(idxs_ds, seq, data, mv, mask=None):
    out = data.copy()
    for i in seq:
        out[i] = 0
    return np.array(out, dtype=idxs_ds.dtype)

def b_np_array_sorted(idxs_ds, seq, data, mv, mask=None):
    lst = []
    for i in seq:
        lst.append(i)
    return np.sort(np.array(lst, dtype=idxs_ds.dtype))

def b_expr_stmt(idxs_ds, seq, data, mv, mask=None):
    out = data.copy()
    for i in seq:
        helper(i)
        out[i] = 0
    return out
'''
SYN_BAD_NAMES = [l.split("(")[0][4:] for l in SYN_BAD.splitlines() if l.startswith("def b_")]

LEAN_MAIN_PRELUDE = base.LEAN_MAIN_PRELUDE + \
    'instance {α : Type} [Fmt α] : Fmt (List α) := ⟨fun a => " ".intercalate (a.map Fmt.fmt)⟩\n'


def lean_eval(defs_text, calls):
    """calls: [lean expression text] -> list (per call) of int lists (per component)"""
    lines = [f"  IO.println (\"R \" ++ Fmt.fmt ({c}))" for c in calls]
    chunks = [lines[i:i + 40] for i in range(0, len(lines), 40)] or [[]]
    body = LEAN_MAIN_PRELUDE
    for k, ch in enumerate(chunks):
        body += f"def part{k} : IO Unit := do\n" + "\n".join(ch or ["  pure ()"]) + "\n"
    body += "def main : IO Unit := do\n" + "\n".join(f"  part{k}" for k in range(len(chunks))) + "\n"
    path = os.path.join(LEAN_DIR, f".sw2_eval_{os.getpid()}.lean")
    with open(path, "w") as fh:
        fh.write(defs_text + body)
    try:
        p = subprocess.run(["lake", "env", "lean", "--run", path], cwd=LEAN_DIR, stdout=subprocess.PIPE,
                           stderr=subprocess.STDOUT, timeout=600)
    finally:
        os.remove(path)
    out = p.stdout.decode(errors="replace")
    if p.returncode != 0:
        return None, out[-1500:]
    res = [l[2:] for l in out.split("\n") if l.startswith("R ") or l == "R"]
    if len(res) != len(calls):
        return None, f"{len(res)} answers for {len(calls)} calls: " + out[-500:]
    return [[[int(t) for t in part.split()] for part in l.split("|")] for l in res], ""


def syn_translate(src, names_kinds):
    return extract_fn.translate_sweep2_source(src, "syn.py", [(n, n, k) for n, k in names_kinds], {"sib": SIB},
                                               kcalls=SIB_KCALLS, sweeps=SIB_SWEEPS)


def synthetic(ctx):
    """-> (lean defs text in namespace Syn2, calls, expected); raises RuntimeError when the self-test fails"""
    rng = ctx.rng
    sib_text, st0 = extract_fn.translate_sweep_source(SIB, "sib.py", [("count_up", "count_up", SIB_SWEEPS[0][3])])
    if st0["count_up"] is not None:
        raise RuntimeError(f"extract_fn 2b self-test: the synthetic callee was refused: {st0}")
    text, status = syn_translate(SYN_OK, SYN_OK_SPECS)
    bad = [n for n, r in status.items() if r is not None]
    if bad:
        raise RuntimeError(f"extract_fn 2b self-test: supported synthetic kernels were refused: "
                           f"{[(n, status[n]) for n in bad]}")
    _, st2 = syn_translate(SYN_BAD, [(n, _K) for n in SYN_BAD_NAMES])
    accepted = [n for n in SYN_BAD_NAMES if st2[n] is None]
    if accepted:
        raise RuntimeError(f"extract_fn 2b self-test: functions outside the fragment were translated: {accepted}")
    # fragment 2 (no `ext`) must keep refusing every new construct
    _, st3 = extract_fn.translate_sweep_source(SYN_OK, "syn.py", [(n, n, k) for n, k in SYN_OK_SPECS])
    still = [n for n, r in st3.items() if r is None]
    if still:
        raise RuntimeError(f"extract_fn self-test: fragment 2 accepted constructs of fragment 2b: {still}")
    ctx.count("sw2:selftest:refused", len(SYN_BAD_NAMES) + len(SYN_OK_SPECS))
    sib_env = {}
    exec(compile(SIB, "<sib>", "exec"), sib_env)
    env = {"sib": types.SimpleNamespace(**{k: v for k, v in sib_env.items() if callable(v)})}
    exec(compile(SYN_OK.replace("from . import sib\n", ""), "<syn2>", "exec"), env)   # `sib` injected instead
    calls, expected = [], []
    for name, kinds in SYN_OK_SPECS:
        params = list(inspect.signature(env[name]).parameters)
        for _ in range(25):
            n = rng.randint(1, 9)
            ds = [rng.randrange(n) for _ in range(n)]
            if name.startswith("s_call"):
                ds = [n if rng.random() < 0.2 else d for d in ds]      # missing cells: only compared with mv …
                seq = [i for i in rng.sample(range(n), rng.randint(0, n)) if ds[i] != n]   # … never subscripted
            else:
                seq = rng.sample(range(n), rng.randint(0, n))
            vals = {"idxs_ds": ds, "seq": seq, "data": [rng.randint(0, 6) for _ in range(n)], "mv": n,
                    "mask": None if rng.random() < 0.4 else [rng.random() < 0.6 for _ in range(n)]}
            py = []
            for p in params:
                k = kinds.get(p, INT)
                v = vals[p]
                py.append(np.array(v, dtype=np.int64) if k in (ARRI, ARRN, SEQ) else
                          (None if v is None else np.array(v, dtype=bool)) if k == OPTB else int(v))
            want = env[name](*py)
            calls.append("Syn2." + name + " " + " ".join(base.larg(kinds.get(p, INT), vals[p]) for p in params))
            expected.append(base.flat(want))
            ctx.count("sw2:selftest:call:" + name)
    lean = "namespace Syn2\nopen Pf.Generated.Sw\n" + sib_text + "\n" + text + "\nend Syn2\n"
    return lean, calls, expected


# ----------------------------------------------------------------------------------------
# (b) the real kernels
# ----------------------------------------------------------------------------------------
REAL = {"strahler_order": ("streams", "strahler_order"), "stream_order": ("streams", "stream_order"),
        "pit_indices": ("core", "pit_indices"), "tributaries": ("basins", "_tributaries")}


def kernel(lean):
    import pyflwdir  # noqa: F401
    mod = importlib.import_module("pyflwdir." + REAL[lean][0])
    return getattr(mod, REAL[lean][1], None)


def ints(out, n=None):
    res = []
    for x in np.asarray(out).ravel().tolist():
        if float(x) != int(x):
            return ["non-integer " + repr(x)]
        res.append(int(x))
    return res


def main_upstream_of(ds, upa):
    """first inflow cell of largest upstream area (> 0), n = none: the documented behaviour of `core.main_upstream`"""
    n = len(ds)
    out = [n] * n
    best = [0] * n
    for i in range(n):
        d = ds[i]
        if d != n and d != i and upa[i] > best[d]:
            out[d], best[d] = i, upa[i]
    return out


def call_real(lean, d):
    """the real kernel on a canonical network (ds[i] = n = missing) -> list of ints or None (absent)"""
    f = kernel(lean)
    if f is None:
        return None
    ds, seq, n = d["ds"], d["seq"], len(d["ds"])
    idxs_ds = ds_to_np(ds, np.intp)
    sq = np.array(seq, dtype=np.intp)
    mask = None if d.get("mask") is None else np.array(d["mask"], dtype=bool)
    with warnings.catch_warnings():
        warnings.simplefilter("ignore")
        if lean == "strahler_order":
            return ints(f(idxs_ds, sq, mask))
        if lean == "stream_order":
            usm = np.array([-1 if x == n else x for x in d["usmain"]], dtype=np.intp)
            return ints(f(idxs_ds, sq, usm, mask, np.intp(-1)))
        if lean == "pit_indices":
            return ints(f(idxs_ds))
        return ints(f(idxs_ds, sq, np.array(d["strord"], dtype=d.get("sdtype", "uint8"))))


def close_mask(ds, m):
    """smallest downstream-closed mask containing m (on the valid cells)"""
    n = len(ds)
    m = list(m)
    for i in range(n):
        j, k = i, 0
        while m[i] and ds[j] != n and ds[j] != j and k <= n:
            j = ds[j]
            m[j] = True
            k += 1
    return m


def is_closed(ds, m):
    n = len(ds)
    return m is None or all(not (m[i] and ds[i] != n) or m[ds[i]] for i in range(n))


def gen_net(ctx, loops=False):
    rng = ctx.rng
    n = rng.randint(2, 14)
    if loops and rng.random() < 0.3:
        ds, kind = gen_funcgraph(rng, n), "funcgraph"
    else:
        ds, kind = gen_forest(rng, n, fanin_bias=rng.choice([0.0, 0.5, 0.8])), "forest"
    r = rng.random()
    if r < 0.4:
        mask = None
    else:
        mask = [rng.random() < 0.6 for _ in range(n)]
        if r < 0.9 and kind == "forest":
            mask = close_mask(ds, mask)
    upa = [rng.randint(1, 5) for _ in range(n)]
    if rng.random() < 0.5:      # a real accumulation (when loop-free)
        upa = [1] * n
        for i in range(n):
            j, k = i, 0
            while ds[j] != n and ds[j] != j and k <= n:
                j = ds[j]
                upa[j] += 1
                k += 1
    strord = [rng.randint(0, 3) for _ in range(n)]
    return {"ds": ds, "mask": mask, "usmain": main_upstream_of(ds, upa), "upa": upa, "strord": strord,
            "sdtype": rng.choice(["uint8", "int64", "int32"]), "kind": kind}


def real_calls(ctx, status):
    calls, expected, descs = [], [], []
    for lean in REAL:
        if status.get(lean, 1) is not None or kernel(lean) is None:
            ctx.count("sw2:gen:not-comparable:" + lean)
    for _ in range(100 * min(ctx.escalate, 2)):
        d = gen_net(ctx, loops=True)
        ds, n = d["ds"], len(d["ds"])
        d["seq"] = base.rand_topo(ctx.rng, ds)
        args = {"idxs_ds": ds, "seq": d["seq"], "mask": d["mask"], "mv": n, "idxs_us_main": d["usmain"],
                "strord": d["strord"]}
        for lean, _file, _py, kinds in extract_fn.SWEEPS2:
            if status.get(lean, 1) is not None or kernel(lean) is None:
                continue
            params = list(inspect.signature(kernel(lean)).parameters)
            if any(p not in args for p in params):
                ctx.count("sw2:gen:not-comparable:" + lean)
                continue
            want = call_real(lean, d)
            calls.append("Pf.Generated.Sw." + lean + " " + " ".join(base.larg(kinds.get(p, INT), args[p]) for p in params))
            expected.append([want])
            descs.append({"op": "c08fn.gen", "kernel": lean, **d})
            ctx.count("sw2:gen:" + lean)
    return calls, expected, descs


def run_translator(ctx):
    text1, _ = extract_fn.render_sweeps(REPO)
    text2, status = extract_fn.render_sweeps2(REPO)
    text = text1 + "\n".join(l for l in text2.split("\n") if not l.startswith("import ")) + "\n"
    for k, v in status.items():
        ctx.count("sw2:extract:" + k + (":translated" if v is None else ":REFUSED"))
        if v is not None:
            ctx.notes.append(f"extract_fn refused kernel {k}: {v}")
    syn_defs, calls_s, exp_s = synthetic(ctx)
    calls_r, exp_r, descs = real_calls(ctx, status)
    rows, err = lean_eval(text + syn_defs, calls_s + calls_r)
    if rows is None:
        rows_s, err_s = lean_eval("namespace Pf.Generated.Sw\n" + extract_fn.SW_PRELUDE + "end Pf.Generated.Sw\n" + syn_defs,
                                  calls_s)
        if rows_s is None:
            raise RuntimeError("extract_fn 2b self-test: the synthetic translation does not run in Lean:\n" + err_s)
        rows = rows_s + [None] * len(calls_r)
        ctx.fail({"op": "c08fn.gen", "what": "generated defs of the real kernels"}, "model",
                 "Generated/Sweeps2.lean text does not elaborate / run in Lean: " + err[-600:])
    for c, want, got in zip(calls_s, exp_s, rows[:len(calls_s)]):
        if want != got:
            raise RuntimeError(f"extract_fn 2b self-test: {c}: Python {want}, Lean evaluation of the translation {got}")
    ctx.count("sw2:selftest:lean-evaluated", len(calls_s))
    for c, want, got, d in zip(calls_r, exp_r, rows[len(calls_s):], descs):
        ctx.evaluations += 1
        if got is not None and want != got:
            ctx.fail(d, "model", f"generated def evaluates to {got}, the Python kernel returns {want} ({c[:60]}…)")
    ctx.count("sw2:gen:lean-evaluated", len(calls_r))


# ----------------------------------------------------------------------------------------
# (c) differential against the hand-written models and the declarative definitions
# ----------------------------------------------------------------------------------------
def cmp3(name, impl, a, model_key, spec_key, use_spec=True):
    if impl is None:
        return []
    fs = []
    spec, model = (a[spec_key] if spec_key else None), a[model_key]
    if len(impl) != len(model):
        return [{"kind": "spec" if use_spec else "model", "what": f"{name}: {len(impl)} entries, {model_key} has {len(model)}",
                 "impl": impl, "model": model}]
    bad = [k for k in range(len(impl)) if spec is not None and use_spec and impl[k] != spec[k]]
    if bad:
        k = bad[0]
        fs.append({"kind": "spec", "what": f"{name}: cell {k} holds {impl[k]}, the declarative definition gives "
                                           f"{spec[k]} ({len(bad)} cells differ)", "impl": impl, "spec": spec})
    badm = [k for k in range(len(impl)) if impl[k] != model[k]]
    if badm and not bad:
        k = badm[0]
        fs.append({"kind": "model", "what": f"{name}: cell {k} holds {impl[k]}, {model_key} gives {model[k]}",
                   "impl": impl, "model": model})
    return fs


def run_orders(ctx, d):
    ds, seq, mask, usmain = d["ds"], d["seq"], d["mask"], d["usmain"]
    stra = call_real("strahler_order", d)
    clas = call_real("stream_order", d)
    for nm, v in (("strahler_order", stra), ("stream_order", clas)):
        ctx.count("sw2:orders:" + nm + (":not-comparable" if v is None else ""))
    closed = is_closed(ds, mask)
    ctx.count("sw2:orders:mask:" + ("none" if mask is None else "closed" if closed else "open"))

    def judge(ans):
        a = ans[0]
        if "__err__" in a:
            return [{"kind": "model", "what": f"driver error {a['__err__']}"}]
        ok = bool(a["topo"][0]) and bool(a["cover"][0]) and closed     # the property speaks about closed masks
        fs = (cmp3("strahler_order", stra, a, "model.strahler", "spec.strahler", ok)
              + cmp3("stream_order", clas, a, "model.classic", "spec.classic", ok))
        if not fs and clas is not None:
            fs += cmp3("stream_order", clas, a, "model.classic18", None)
        if (a["closed"] == [1]) != closed:
            fs.append({"kind": "model", "what": "harness and driver disagree on mask closedness"})
        return fs
    args = {"ds": ds, "seq": seq, "usmain": usmain}
    if mask is not None:
        args["mask"] = [int(b) for b in mask]
    ctx.add(d, [("c08fn.orders", args)], judge, nontrivial=net_features(ds)["confluences"] >= 1)


def run_scans(ctx, d):
    ds, seq, strord, n = d["ds"], d["seq"], d["strord"], len(d["ds"])
    pits = call_real("pit_indices", d)
    trib = call_real("tributaries", d)
    for nm, v in (("pit_indices", pits), ("tributaries", trib)):
        ctx.count("sw2:scans:" + nm + (":not-comparable" if v is None else ""))
    spec_p = [i for i in range(n) if ds[i] == i]
    spec_t = [i for i in seq if strord[i] > 0 and strord[i] > strord[ds[i]]]

    def judge(ans):
        a = ans[0]
        if "__err__" in a:
            return [{"kind": "model", "what": f"driver error {a['__err__']}"}]
        fs = []
        for nm, impl, spec, key in (("pit_indices", pits, spec_p, "model.pits"), ("_tributaries", trib, spec_t, "model.trib")):
            if impl is None:
                continue
            if impl != spec:
                fs.append({"kind": "spec", "what": f"{nm}: returns {impl}, the declarative list is {spec}", "impl": impl})
            elif impl != a[key]:
                fs.append({"kind": "model", "what": f"{nm}: returns {impl}, {key} gives {a[key]}", "impl": impl})
        return fs
    ctx.add(d, [("c08fn.scans", {"ds": ds, "seq": seq, "strord": strord})], judge,
            nontrivial=net_features(ds)["confluences"] >= 1)


def dispatch(ctx, d):
    if d.get("op") == "c08fn.orders":
        run_orders(ctx, d)
    elif d.get("op") == "c08fn.scans":
        run_scans(ctx, d)


def run(ctx):
    if getattr(ctx, "replay", None):
        d = ctx.replay.get("failure", {}).get("desc") or ctx.replay.get("desc")
        if d and str(d.get("op", "")).startswith("c08fn."):
            dispatch(ctx, d)
        return
    quick = ctx.tier == "quick"
    run_translator(ctx)
    for _ in range((120 if quick else 1500) * ctx.escalate):
        d = gen_net(ctx)
        d["seq"] = base.rand_topo(ctx.rng, d["ds"])
        dispatch(ctx, dict(d, op="c08fn.orders"))
        d2 = gen_net(ctx)
        d2["seq"] = base.rand_topo(ctx.rng, d2["ds"])
        dispatch(ctx, dict(d2, op="c08fn.scans"))
        if len(ctx.cases) > 400:
            ctx.flush()
