"""C09 extension - the ITERATIVE stages of IHU: upscale.ihu_relocate_outlets, ihu_optimize_rivlen, ihu_minimize_error
(with next_outlet, core._d8_idx, core._upstream_d8_idx) and the niter loop of upscale.ihu.

The real kernels are called directly on generated fine networks and on the coarse states the implementation itself
produces (first pass, then stage after stage, several rounds); every output array is compared exactly with the
loop-for-loop Lean model (lean/PfVerif/Model/C09_ihu.lean).  `spec` failures: an invariant the theorems of
lean/PfVerif/Props/C09_ihu.lean say the stage preserves is lost on the implementation's output, the implementation raises,
or it indexes an array with the missing value -1.  `model` failures: implementation != model.

Fourth stage (lean/PfVerif/Props/C09_ihuTotal.lean): the driver evaluates the hypotheses of the new theorems on the
inputs of every stage call (hyp.*: EnvOK, ReachesPit, upstream area of missing pixels <= minupa, flagged cells have outlet
pixels) and their conclusions on the IMPLEMENTATION's arrays: `linksok` (valid iff outlet, links in range and 8-neighbour,
outlet pixels valid) is preserved by every stage and holds for the result of ihu; `streams` stays in step with the outlet
pixels through ihu_optimize_rivlen / ihu_minimize_error and the outlets stay pairwise distinct for every pit_out_of_cell;
the model never runs out of fuel.

np.argsort (default kind) does not fix the order of ties; the permutations the implementation actually used are
recorded by an observing stand-in for the module-level `np` of pyflwdir.upscale and handed to the model, which checks
that each of them is a sorting permutation of the keys it computed itself (`sort.bad` = 0)."""
import os

import numpy as np
from common import canon_idx, ints, exc_class
from props import c09 as base

OPS = ["ihu_relocate_outlets", "ihu_relocate_outlets(idxs_fix=None)", "ihu_optimize_rivlen", "ihu_minimize_error",
       "ihu(niter,opt_rivlen,min_error,pit_out_of_cell)", "next_outlet,_d8_idx,_upstream_d8_idx"]
RULE = ("C09 extension: fine networks of the C09 generators (DEM-style and spanning-forest D8 networks with per-cell "
        "nodata, blanked coarse cells, shapes mostly not multiples of the scale factor, 1xN / Nx1), scale factors 2..4 "
        "(sometimes 5, 6); coarse states = the implementation's own first pass and the states after every stage of up "
        "to 3 rounds; default / integer / quarter-unit upstream areas; index dtypes int32/int64/intp. non-trivial = the "
        "stage changed the coarse network or the outlet pixels")

JIT = os.environ.get("PF_JIT", "0") == "1"


# ----------------------------------------------------------------------------------------
# observation: argsort results and negative indices
# ----------------------------------------------------------------------------------------
class NpRec:
    """observing stand-in for the module-level `np` of pyflwdir.upscale: records the result of every np.argsort call"""

    def __init__(self, real, log):
        object.__setattr__(self, "_real", real)
        object.__setattr__(self, "_log", log)

    def __getattr__(self, name):
        v = getattr(self._real, name)
        if name == "argsort":
            log = self._log

            def f(a, *args, **kw):
                r = v(np.asarray(a), *args, **kw)
                log.append([int(x) for x in np.asarray(r).tolist()])
                return r
            return f
        return v


NEG = []


def _chk_index(idx):
    def one(i):
        if isinstance(i, (int, np.integer)) and not isinstance(i, (bool, np.bool_)):
            if int(i) < 0:
                NEG.append(int(i))
        elif isinstance(i, np.ndarray) and i.dtype != bool and i.size and np.issubdtype(i.dtype, np.signedinteger):
            if (np.asarray(i) < 0).any():
                NEG.append(int(np.asarray(i).min()))
    if isinstance(idx, tuple):
        for i in idx:
            one(i)
    else:
        one(idx)


class G(np.ndarray):
    """array that notes every access with a negative index (the missing value used as an index)"""

    def __getitem__(self, idx):
        _chk_index(idx)
        return np.ndarray.__getitem__(self, idx)

    def __setitem__(self, idx, val):
        _chk_index(idx)
        np.ndarray.__setitem__(self, idx, val)

    def __array_finalize__(self, obj):
        pass


def g(a):
    return np.array(a, copy=True).view(G)


def observed(fn):
    """run fn() with argsort recording and index guard: (status, result, sorts, negative-index flag)"""
    from pyflwdir import upscale as U
    log = []
    NEG.clear()
    real = U.np
    if not JIT:
        U.np = NpRec(real, log)
    try:
        r = fn()
        st = "ok"
    except (IndexError, AssertionError, ValueError, ZeroDivisionError, TypeError) as e:
        r = f"{exc_class(e)}:{type(e).__name__}: {str(e)[:80]}"
        st = "exc"
    finally:
        U.np = real
    return st, r, log, bool(NEG)


def sorts_args(log):
    return {"sorts.len": [len(p) for p in log], "sorts.flat": [x for p in log for x in p]}


# ----------------------------------------------------------------------------------------
INV = ["sizes", "owncell", "outletpix", "orpit", "range", "validiff", "d8", "outvalid", "linksok"]
# invariants each stage is PROVED (Props/C09_ihu.lean: relocate_outlets_checked / relocate_links_size,
# optimize_rivlen_outlets_exit, minimize_error_outlets, minimize_error_outlets_exit + checks_of_outletOf /
# chkOutletOrPit_iff) to preserve; a loss on the implementation's output is a spec failure
PRESERVED = {"relocate": ["sizes", "owncell", "outletpix"],
             "rivlen": ["sizes", "owncell", "outletpix"],
             "minerr": ["sizes", "orpit"],
             "minerr0": ["sizes", "owncell", "outletpix", "orpit"]}
# fourth stage (Props/C09_ihuTotal.lean: relocate_outlets_links, optimize_rivlen_links, minimize_error_links): under the
# hypotheses hyp.* (EnvOK, ReachesPit, upstream area of missing pixels <= minupa, flagged cells have outlet pixels) every
# stage preserves `linksok` = sizes & range & validiff & d8 & outvalid, and the model never runs out of fuel
# (relocate_outlets_total, optimize_rivlen_total, minimize_error_total).  The single bits are still counted when lost.
LINKS = "linksok"
OBSERVED = ["range", "validiff", "d8"]


def judge_stage(ctx, stage, label, impl, status, neg):
    def judge(ans):
        a = ans[0]
        if "__err__" in a:
            return [{"kind": "model", "what": "driver error " + a["__err__"]}]
        fs = []
        if status == "exc":
            return [{"kind": "spec", "what": f"{label} raised {impl} on the implementation's own coarse state"}]
        if neg:
            fs.append({"kind": "spec", "what": f"{label}: an array is indexed with the missing value (-1 wraps to the "
                                               f"last element)"})
        for bit in PRESERVED[stage]:
            if a["pre." + bit] == [1] and a["spec." + bit] != [1]:
                fs.append({"kind": "spec", "what": f"{label}: invariant '{bit}' holds before and is lost after the stage",
                           "impl": impl})
        for bit in OBSERVED:
            if a["pre." + bit] == [1] and a["spec." + bit] != [1]:
                ctx.count(f"i:observed:{stage}-loses-{bit}")
        hyp = all(v == [1] for k, v in a.items() if k.startswith("hyp."))
        if not hyp:
            ctx.count(f"i:hyp:{stage}-hypothesis-of-the-links-theorem-false")
        elif a["pre." + LINKS] == [1]:
            ctx.count("i:thm:links-hypotheses-hold")
            if a["spec." + LINKS] != [1]:
                fs.append({"kind": "spec", "what": f"{label}: the coarse network is well formed (valid iff outlet, links "
                                                   f"in range and 8-neighbour, outlet pixels valid) before and no longer "
                                                   f"after the stage", "impl": impl})
        # optimize_rivlen_sync / minimize_error_outlets_distinct: `streams` in step with the outlet array before => in step
        # and outlets pairwise distinct after (evaluated on the implementation's arrays), for every pit_out_of_cell
        if "sync.pre" in a:
            if a["sync.pre"] == [1]:
                ctx.count("i:thm:sync-hypotheses-hold")
                if a["sync.post"] != [1]:
                    fs.append({"kind": "spec", "what": f"{label}: streams is in step with the outlet pixels before the "
                                                       f"stage; afterwards it is not, or two coarse cells share an outlet "
                                                       f"pixel", "impl": impl})
            else:
                ctx.count(f"i:hyp:{stage}-streams-not-in-step-before")
        if a["fuel"] != [0]:
            fs.append({"kind": "model", "what": f"{label}: Lean model ran out of fuel"
                                                + (" although the hypotheses of the totality theorem hold"
                                                   if hyp and a["pre." + LINKS] == [1] else "")})
            return fs
        if "sort.bad" in a and a["sort.bad"] != [0] and not JIT:
            fs.append({"kind": "model", "what": f"{label}: a recorded np.argsort result is not a sorting permutation "
                                                f"of the model's keys (or the numbers of argsort calls differ)"})
        if "sort.left" in a and a["sort.left"] != [0] and not JIT:
            fs.append({"kind": "model", "what": f"{label}: the model made fewer np.argsort calls than the implementation"})
        if JIT and a.get("sort.bad", [0]) != [0]:
            return fs  # order of ties not observable under the JIT
        for k, v in impl.items():
            if a.get("model." + k) != v:
                fs.append({"kind": "model", "what": f"{label}: {k}: implementation != Lean model", "impl": v,
                           "model": a.get("model." + k)})
        return fs
    return judge


def run_network(ctx, ds, shape, s, upa_kind, upa_arr, upa_int, idt, rounds=3):
    import pyflwdir
    from pyflwdir import upscale as U, core
    rng = ctx.rng
    n = len(ds)
    subncol = shape[1]
    raster = base.ds_to_raster(ds, shape, "d8")
    flw = pyflwdir.from_array(raster, ftype="d8")
    if canon_idx(flw.idxs_ds, n) != ds:
        raise RuntimeError("harness: from_array did not decode the raster the harness encoded")
    dt = np.dtype(idt)
    mv = dt.type(-1)
    idxs_ds = np.array([-1 if d == n else d for d in ds], dtype=dt)
    if upa_arr is None:
        upa_flat = flw.upstream_area().ravel()
        upa4 = [4 * int(x) for x in upa_flat.tolist()]
    else:
        upa_flat = np.asarray(upa_arr).ravel()
        upa4 = list(upa_int) if upa_kind == "user-quarter" else [4 * int(x) for x in upa_int]
    shape1 = base.coarse_shape(shape, s)
    n1 = shape1[0] * shape1[1]
    minlen, minupa = s * 0.25, s * s * 0.25
    bdesc = {"raster": raster.tolist(), "scale": s, "uparea_kind": upa_kind, "dtype": dt.name,
             "uparea": None if upa_arr is None else np.asarray(upa_arr).tolist()}
    env = {"ds": ds, "subshape": list(shape), "cs": s, "upa": upa4}
    par = {"min_num": s, "min_den": 4, "minupa": s * s}
    ctx.count(f"i:scale:{s}")
    ctx.count("i:dtype:" + dt.name)
    ctx.count("i:uparea:" + upa_kind)
    if shape[0] == 1 or shape[1] == 1:
        ctx.count("i:feature:1xN-or-Nx1")
    if any(d == n for d in ds):
        ctx.count("i:feature:nodata")

    # the implementation's own first pass
    rep = U.eam_repcell(idxs_ds, upa_flat, shape, shape1, s, mv=mv)
    out = U.ihu_outlets(rep, idxs_ds, upa_flat, shape, shape1, s, mv=mv)
    cds, fix = U.ihu_nextidx(out, idxs_ds, shape, shape1, s, mv=mv)
    cds, out, fix = np.asarray(cds), np.asarray(out), np.asarray(fix)

    def cz(a):
        return canon_idx(a, n1)

    def oz(a):
        return canon_idx(a, n)

    # helpers on the first-pass state
    if rng.random() < 0.3:
        cells = [rng.randrange(n1) for _ in range(4)]
        valid_px = [p for p in range(n) if ds[p] != n]
        pix = [rng.choice(valid_px) for _ in range(4)]
        imp = {}
        for k, c in enumerate(cells):
            imp[f"d8.{k}"] = ints(core._d8_idx(c, shape1))
            imp[f"us.{k}"] = ints(core._upstream_d8_idx(c, cds, shape1))
        for k, p in enumerate(pix):
            p1, i1, o1 = U.next_outlet(p, idxs_ds, out, subncol, s, shape1[1])
            imp[f"next.{k}"] = [int(p1), int(i1), int(bool(o1))]

        def judge_h(ans, imp=imp):
            a = ans[0]
            if "__err__" in a:
                return [{"kind": "model", "what": "driver error " + a["__err__"]}]
            return [{"kind": "model", "what": f"{k}: implementation != Lean model", "impl": v, "model": a.get(k)}
                    for k, v in imp.items() if a.get(k) != v]
        ctx.add({"op": "ihu-helpers", "cells": cells, "pix": pix, **bdesc}, [("c09ihu_helpers", {
            **env, "cds": cz(cds), "out": oz(out), "idxs": cells, "pix": pix})], judge_h, nontrivial=True)

    # relocation with idxs_fix=None (the cells upscale_error reports) on the first-pass state
    if rng.random() < 0.25:
        _stage_relocate(ctx, U, bdesc, env, None, cds, out, idxs_ds, upa_flat, shape, shape1, s, mv, n, n1, "first-pass")

    for rnd in range(rounds):
        # STAGE 1: relocate
        r = _stage_relocate(ctx, U, bdesc, env, fix, cds, out, idxs_ds, upa_flat, shape, shape1, s, mv, n, n1, f"round-{rnd}")
        if r is None:
            return
        cds1, out1 = r
        valid, streams, fix1, short = U.upscale_check(out1, cds1, idxs_ds, minlen=minlen, mv=mv)
        last = fix1.size == 0 or fix1.size == fix.size or rnd + 1 == rounds
        # STAGE 2: optimize river length
        streams0 = ints(streams)
        st, res, _, neg = observed(lambda: U.ihu_optimize_rivlen(
            g(short), g(valid), streams.view(G), g(cds1), g(out1), g(idxs_ds), g(upa_flat), shape, shape1, s,
            minlen=minlen, minupa=minupa, mv=mv))
        desc = {"op": "ihu_optimize_rivlen", "state": f"round-{rnd}", "cds": cz(cds1), "out": oz(out1),
                "short": ints(short), **bdesc}
        if st == "ok":
            cds2, out2 = np.asarray(res[0]).view(np.ndarray), np.asarray(res[1]).view(np.ndarray)
            impl = {"cds": cz(cds2), "out": oz(out2), "streams": ints(streams)}
            changed = impl["cds"] != cz(cds1) or impl["out"] != oz(out1)
            if changed:
                ctx.count("i:feature:rivlen-changed")
        else:
            impl, changed, cds2, out2 = res, False, cds1, out1
        if short.size:
            ctx.count("i:feature:short-cells")
        ctx.add(desc, [("c09ihu_rivlen", {**env, **par, "cds": cz(cds1), "out": oz(out1), "short": ints(short),
                                          "valid": [int(bool(x)) for x in valid.tolist()], "streams": streams0,
                                          "impl.cds": cz(cds2), "impl.out": oz(out2), "impl.streams": ints(streams)})],
                judge_stage(ctx, "rivlen", "ihu_optimize_rivlen", impl, st, neg), nontrivial=changed)
        if st != "ok":
            return
        # STAGE 3: minimize error (pit_out_of_cell only in the last round, as in ihu; sometimes the other way round)
        poc = 2 if last else 0
        if rng.random() < 0.2:
            poc = rng.choice([0, 1, 2, 3])
        streams1 = ints(streams)
        sview = np.array(streams, copy=True)
        st, res, log, neg = observed(lambda: U.ihu_minimize_error(
            g(fix1), g(valid), sview.view(G), g(cds2), g(out2), g(idxs_ds), g(upa_flat), shape, shape1, s,
            minlen=minlen, minupa=minupa, pit_out_of_cell=poc, mv=mv))
        desc = {"op": "ihu_minimize_error", "state": f"round-{rnd}", "cds": cz(cds2), "out": oz(out2),
                "fix": ints(fix1), "streams": streams1, "pit_out_of_cell": poc, **bdesc}
        if st == "ok":
            cds3, out3 = np.asarray(res[0]).view(np.ndarray), np.asarray(res[1]).view(np.ndarray)
            impl = {"cds": cz(cds3), "out": oz(out3), "streams": ints(sview)}
            changed = impl["cds"] != cz(cds2) or impl["out"] != oz(out2)
            if changed:
                ctx.count("i:feature:minerr-changed")
            if any(o != n and (o // subncol // s) * shape1[1] + (o % subncol) // s != c for c, o in enumerate(impl["out"])):
                ctx.count("i:feature:minerr-outlet-outside-own-cell")
        else:
            impl, changed, cds3, out3 = res, False, cds2, out2
        if fix1.size:
            ctx.count("i:feature:erroneous-cells")
        ctx.add(desc, [("c09ihu_minerr", {**env, **par, "cds": cz(cds2), "out": oz(out2), "fix": ints(fix1),
                                          "streams": streams1, "poc": poc, **sorts_args(log),
                                          "impl.cds": cz(cds3), "impl.out": oz(out3), "impl.streams": ints(sview)})],
                judge_stage(ctx, "minerr" if poc else "minerr0", "ihu_minimize_error", impl, st, neg), nontrivial=changed)
        if st != "ok" or fix1.size == 0:
            break
        cds, out, fix = cds3, out3, np.asarray(fix1)

    # the whole of ihu with explicit options
    if rng.random() < 0.7:
        niter = rng.choice([1, 2, 3, 5, 5])
        opt, me = rng.random() < 0.8, rng.random() < 0.8
        poc = rng.choice([0, 1, 2, 2, 2])
        st, res, log, neg = observed(lambda: U.ihu(g(idxs_ds), g(upa_flat), shape, s, niter=niter, opt_rivlen=opt,
                                                   min_error=me, pit_out_of_cell=poc, mv=mv))
        ea = [bool(U.effective_area(p, subncol, s)) for p in range(n)]
        desc = {"op": "ihu", "niter": niter, "opt_rivlen": opt, "min_error": me, "pit_out_of_cell": poc, **bdesc}
        if st == "ok":
            impl = {"cds": cz(res[0]), "out": oz(res[1])}
        else:
            impl = res

        def judge_i(ans, impl=impl, st=st, neg=neg):
            a = ans[0]
            if "__err__" in a:
                return [{"kind": "model", "what": "driver error " + a["__err__"]}]
            if st == "exc":
                return [{"kind": "spec", "what": f"upscale.ihu raised {impl} on a valid loop-free network"}]
            fs = []
            if neg:
                fs.append({"kind": "spec", "what": "upscale.ihu: an array is indexed with the missing value (-1)"})
            # ihu_model_total / ihu_links (Props/C09_ihuTotal.lean): hypotheses evaluated on the inputs, conclusion on the
            # implementation's output
            hyp = all(v == [1] for k, v in a.items() if k.startswith("hyp."))
            if hyp:
                ctx.count("i:thm:ihu_links-hypotheses-hold")
                if a.get("spec.linksok") != [1]:
                    fs.append({"kind": "spec", "what": "upscale.ihu: the returned coarse network is not well formed (valid "
                                                       "iff outlet, links in range and 8-neighbour, outlet pixels valid)",
                               "impl": impl})
                # ihu_outlets_distinct (needs FineWF only): for every pit_out_of_cell
                if a.get("spec.distinct") != [1]:
                    fs.append({"kind": "spec", "what": "upscale.ihu: two coarse cells report the same outlet pixel",
                               "impl": impl})
            else:
                ctx.count("i:hyp:ihu-hypothesis-false:" + ",".join(sorted(k for k, v in a.items()
                                                                         if k.startswith("hyp.") and v != [1])))
            if a["fuel"] != [0]:
                return fs + [{"kind": "model", "what": "ihu: Lean model ran out of fuel"
                              + (" although the hypotheses of ihu_model_total hold" if hyp else "")}]
            if not JIT and (a["sort.bad"] != [0] or a["sort.left"] != [0]):
                fs.append({"kind": "model", "what": "ihu: recorded np.argsort results do not match the model's sort calls"})
            if JIT and a["sort.bad"] != [0]:
                return fs
            for k, v in impl.items():
                if a.get("model." + k) != v:
                    fs.append({"kind": "model", "what": f"ihu: {k}: implementation != Lean model", "impl": v,
                               "model": a.get("model." + k)})
            return fs
        ctx.count("i:op:ihu")
        extra = {"impl.cds": impl["cds"], "impl.out": impl["out"]} if st == "ok" else {}
        ctx.add(desc, [("c09ihu_ihu", {**env, "ea": ea, "niter": niter, "opt_rivlen": int(opt), "min_error": int(me),
                                       "poc": poc, **sorts_args(log), **extra})], judge_i, nontrivial=True)


def _stage_relocate(ctx, U, bdesc, env, fix, cds, out, idxs_ds, upa_flat, shape, shape1, s, mv, n, n1, state):
    cds_c, out_c = canon_idx(cds, n1), canon_idx(out, n)
    st, res, log, neg = observed(lambda: U.ihu_relocate_outlets(
        None if fix is None else g(fix), g(cds), g(out), g(idxs_ds), g(upa_flat), shape, shape1, s, mv=mv))
    desc = {"op": "ihu_relocate_outlets" + ("(idxs_fix=None)" if fix is None else ""), "state": state, "cds": cds_c,
            "out": out_c, "fix": None if fix is None else ints(fix), **bdesc}
    if st == "ok":
        cds1, out1 = np.asarray(res[0]).view(np.ndarray), np.asarray(res[1]).view(np.ndarray)
        impl = {"cds": canon_idx(cds1, n1), "out": canon_idx(out1, n), "fix": ints(res[2])}
        changed = impl["cds"] != cds_c or impl["out"] != out_c
        if changed:
            ctx.count("i:feature:relocate-changed")
        if impl["out"] != out_c:
            ctx.count("i:feature:relocate-moved-outlet")
        if impl["fix"]:
            ctx.count("i:feature:relocate-unresolved")
    else:
        impl, changed, cds1, out1 = res, False, cds, out
    if fix is not None and len(fix):
        ctx.count("i:feature:flagged-cells")
    ctx.add(desc, [("c09ihu_relocate", {**env, "cds": cds_c, "out": out_c, "fix": None if fix is None else ints(fix),
                                        **sorts_args(log), "impl.cds": canon_idx(cds1, n1),
                                        "impl.out": canon_idx(out1, n)})],
            judge_stage(ctx, "relocate", desc["op"], impl, st, neg), nontrivial=changed)
    if st != "ok":
        return None
    return cds1, out1


# ----------------------------------------------------------------------------------------
def gen_case(rng, tier):
    """the C09 generator, biased to scale factors 2..4 and to rasters with several coarse cells"""
    while True:
        ds, shape, s, feats = base.gen_case(rng, tier)
        if s == 1:
            continue
        if s >= 5 and rng.random() < 0.6:
            continue
        return ds, shape, s, feats


def run(ctx):
    rng = ctx.rng
    if getattr(ctx, "replay", None):
        d = ctx.replay.get("failure", {}).get("desc")
        if d and "raster" in d and str(d.get("op", "")).startswith("ihu"):
            r = np.array(d["raster"], dtype=np.uint8)
            run_network(ctx, base._decode_d8(r), r.shape, d["scale"], "default", None, None, "int32")
        return
    for raster, s in base.CORPUS:
        if s == 1:
            continue
        r = np.array(raster, dtype=np.uint8)
        run_network(ctx, base._decode_d8(r), r.shape, s, "default", None, None, "int32")
    nnet = (350 if ctx.tier == "quick" else 4000) * ctx.escalate
    for _ in range(nnet):
        ds, shape, s, feats = gen_case(rng, ctx.tier)
        kind, upa_arr, upa_int = base.gen_uparea(rng, ds, shape)
        idt = rng.choice(["int32", "int32", "int32", "int64", "intp"])
        run_network(ctx, ds, shape, s, kind, upa_arr, upa_int, idt)
        if len(ctx.cases) > 300:
            ctx.flush()
