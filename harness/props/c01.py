"""C01 - decoding D8 / LDD / NEXTXY rasters.

Per case the real pyflwdir is run at two levels: the kernel `core_<fmt>.from_array` (every shape, also
1x1 and all-nodata) and the public `pyflwdir.from_array` (ftype given or inferred, check_ftype, user mask).
Both results are compared with the declarative reading computed in Lean from the hand-typed code tables
(`spec.*`, failure kind `spec`) and with the loop-for-loop Lean model (`model.*`, failure kind `model`).
`isvalid` x3 and `_infer_ftype` are compared the same way on legal, illegal and wrongly typed containers.
"""
import numpy as np
from common import canon_idx, ints, exc_class, gen_shape, gen_dem_net

OPS = ["core_d8.from_array", "core_ldd.from_array", "core_nextxy.from_array", "pyflwdir.from_array",
       "core_d8.isvalid", "core_ldd.isvalid", "core_nextxy.isvalid", "pyflwdir._infer_ftype"]
RULE = ("enumeration: every legal code (D8 11, LDD 10) at every cell of the shapes 1x1..3x3, 1x4, 4x1 and every "
        "NEXTXY target in the window [-1, ncol+1] x [-1, nrow+1] plus both pit codes and nodata at every cell of 3x3, "
        "1x3, 3x1, 2x2 (sampled in the quick tier, complete in the thorough tier and after an obligation broke); "
        "random rasters <= 7x8 (quick) / <= 40x40 (thorough) over the legal alphabets (uniform, few-nodata, "
        "DEM-derived, all-pit, all-nodata, D8/LDD-ambiguous), NEXTXY targets inside / outside / at nodata / self / "
        "pit codes in x or y; masks none / random / full / empty / wrong shape / 3-D; ftype given or inferred. "
        "non-trivial = >= 2 valid cells, >= 1 non-pit link and (valid border cell or nodata neighbour or pit "
        "variant); distinct = SHA-1 of the case description")

D8_DIRS = {1: (0, 1), 2: (1, 1), 4: (1, 0), 8: (1, -1), 16: (0, -1), 32: (-1, -1), 64: (-1, 0), 128: (-1, 1)}
LDD_DIRS = {7: (-1, -1), 8: (-1, 0), 9: (-1, 1), 4: (0, -1), 6: (0, 1), 1: (1, -1), 2: (1, 0), 3: (1, 1)}
ALPHA = {"d8": [1, 2, 4, 8, 16, 32, 64, 128, 0, 255, 247], "ldd": [7, 8, 9, 4, 6, 1, 2, 3, 5, 255]}
DIRS = {"d8": D8_DIRS, "ldd": LDD_DIRS}
NODATA = {"d8": 247, "ldd": 255, "nextxy": -9999}
PITS = {"d8": [0, 255], "ldd": [5], "nextxy": [-9, -10]}
FT_CODE = {"infer": 0, "d8": 1, "ldd": 2, "nextxy": 3}
FT_NAME = {v: k for k, v in FT_CODE.items()}
MASK_DTYPES = {"bool": np.bool_, "uint8": np.uint8, "int64": np.int64}


# ----------------------------------------------------------------------------------------
# building numpy inputs from a case description (the description is the replay)
# ----------------------------------------------------------------------------------------
_BUFFERS = {}   # callers re-fill one raster buffer in place between calls (tiles, basins of one mosaic)


def build_data(desc):
    shape = tuple(desc["shape"])
    if desc["fmt"] in ("d8", "ldd"):
        a = np.array(desc["codes"], dtype=np.uint8).reshape(shape)
        if desc.get("reuse_buffer"):
            buf = _BUFFERS.setdefault(shape, np.zeros(shape, dtype=np.uint8))
            np.copyto(buf, a)
            return buf
        return a
    xs = np.array(desc["xs"], dtype=np.int32).reshape(shape)
    ys = np.array(desc["ys"], dtype=np.int32).reshape(shape)
    if desc.get("form") == "tuple":
        return (xs, ys)
    return np.stack([xs, ys])


def build_mask(desc):
    if desc.get("mask") is None:
        return None
    return np.array(desc["mask"], dtype=MASK_DTYPES[desc.get("mask_dtype", "bool")]).reshape(tuple(desc["mshape"]))


def driver_data_args(desc):
    r, c = desc["shape"]
    if desc["fmt"] in ("d8", "ldd"):
        return {"kind": 0, "nrow": r, "ncol": c, "codes": desc["codes"]}
    return {"kind": 1, "nrow": r, "ncol": c, "xs": desc["xs"], "ys": desc["ys"]}


# ----------------------------------------------------------------------------------------
# running one case
# ----------------------------------------------------------------------------------------
def run_from_array(ctx, desc):
    from pyflwdir import pyflwdir as pf, core_d8, core_ldd, core_nextxy
    core = {"d8": core_d8, "ldd": core_ldd, "nextxy": core_nextxy}[desc["fmt"]]
    shape = tuple(desc["shape"])
    n = shape[0] * shape[1]
    data = build_data(desc)
    mask = build_mask(desc)

    # kernel level (no mask)
    try:
        ds0, pits0, n0 = core.from_array(data, dtype=np.int32)
    except Exception as e:  # noqa: BLE001 - the kernels never raise on legal rasters
        ctx.evaluations += 1
        ctx.fail(desc, "spec", f"core_{desc['fmt']}.from_array raised {exc_class(e)} on a legal raster: {e!r}"[:200])
        return
    k_impl = (canon_idx(ds0, n), sorted(canon_idx(pits0, n)), int(n0))

    # public API
    ft = desc.get("ft", desc["fmt"])
    kw = {}
    if ft != "infer":
        kw["ftype"] = ft
        kw["check_ftype"] = bool(desc.get("check", True))
    if mask is not None:
        kw["mask"] = mask
    try:
        flw = pf.from_array(data, **kw)
        a_impl = ("ok", flw.ftype, canon_idx(flw.idxs_ds, n), sorted(canon_idx(flw.idxs_pit, n)),
                  [int(bool(x)) for x in np.asarray(flw.mask).ravel().tolist()],
                  tuple(flw.shape) == shape)
    except Exception as e:  # noqa: BLE001 - the class is the observable
        a_impl = ("err", exc_class(e), repr(e)[:120])
    ctx.count("api:" + (a_impl[0] if a_impl[0] == "ok" else a_impl[1]))

    dargs = driver_data_args(desc)
    req_k = ("c01.decode", {"ft": FT_CODE[desc["fmt"]], **dargs})
    req_a = ("c01.from_array", {"ft": FT_CODE[ft], "check": int(bool(desc.get("check", True))), **dargs,
                                "mshape": desc.get("mshape") if mask is not None else None,
                                "mask": [int(x != 0) for x in desc["mask"]] if mask is not None else None})

    def judge(ans):
        fs = []
        k, a = ans
        if "__err__" in k or "__err__" in a:
            return [{"kind": "model", "what": "driver error " + str(k.get("__err__")) + " " + str(a.get("__err__"))}]
        # kernel
        spec = (k["spec.ds"], sorted(k["spec.pits"]), k["spec.n"][0])
        model = (k["model.ds"], sorted(k["model.pits"]), k["model.n"][0])
        for name, j in (("idxs_ds", 0), ("pits", 1), ("n", 2)):
            if k_impl[j] != spec[j]:
                fs.append({"kind": "spec", "what": f"core_{desc['fmt']}.from_array: {name} differs from the "
                           f"declarative reading of the code tables", "impl": k_impl[j], "spec": spec[j]})
            if k_impl[j] != model[j]:
                fs.append({"kind": "model", "what": f"core_{desc['fmt']}.from_array: {name} implementation != Lean model",
                           "impl": k_impl[j], "model": model[j]})
        # the decoded network must be well formed and its pits the self-draining cells (checked on the
        # implementation's own output, independently of spec/model)
        dsi = k_impl[0]
        if any(d != n and dsi[d] == n for d in dsi):
            fs.append({"kind": "spec", "what": "decoded network not closed: a cell drains into a nodata cell", "impl": dsi})
        if k_impl[1] != [i for i in range(n) if dsi[i] == i]:
            fs.append({"kind": "spec", "what": "reported pits are not exactly the self-draining cells",
                       "impl": k_impl[1], "ds": dsi})
        # API
        defined = a["spec.defined"] == [1]
        if defined:
            exp = ("ok", FT_NAME[a["spec.ftype"][0]], a["spec.ds"], sorted(a["spec.pits"]), a["spec.mask"], True)
            if a_impl != exp:
                what = ("pyflwdir.from_array raised " + a_impl[1] + " on a legal raster with pits"
                        if a_impl[0] == "err" else
                        "pyflwdir.from_array: " + ", ".join(
                            nm for nm, j in (("ftype", 1), ("idxs_ds", 2), ("idxs_pit", 3), ("mask", 4), ("shape", 5))
                            if a_impl[j] != exp[j]) + " differ from the declarative reading")
                fs.append({"kind": "spec", "what": what, "impl": a_impl, "spec": exp})
        me = a["model.err"][0]
        if me == 0:
            mexp = ("ok", FT_NAME[a["model.ftype"][0]], a["model.ds"], sorted(a["model.pits"]), a["model.mask"], True)
            if a_impl != mexp:
                fs.append({"kind": "model", "what": "pyflwdir.from_array: implementation != Lean model",
                           "impl": a_impl, "model": mexp})
        elif me == 1:
            if a_impl[:2] != ("err", "ValueError"):
                fs.append({"kind": "model", "what": "pyflwdir.from_array: model raises ValueError, implementation does not",
                           "impl": a_impl})
        else:
            fs.append({"kind": "model", "what": "harness generated a case outside the model", "impl": a_impl})
        return fs

    ctx.add(desc, [req_k, req_a], judge, nontrivial=nontrivial(desc, k_impl[0]))


def nontrivial(desc, ds):
    r, c = desc["shape"]
    n = r * c
    valid = [i for i in range(n) if ds[i] != n]
    if len(valid) < 2 or not any(ds[i] != i for i in valid):
        return False
    if desc["fmt"] == "nextxy":
        if -10 in desc["xs"]:
            return True
    elif desc["fmt"] == "d8" and 255 in desc["codes"]:
        return True
    for i in valid:
        ri, ci = divmod(i, c)
        if ri in (0, r - 1) or ci in (0, c - 1):
            return True
        for dr in (-1, 0, 1):
            for dc in (-1, 0, 1):
                if ds[(ri + dr) * c + ci + dc] == n:
                    return True
    return False


def build_any(desc):
    """container for the isvalid / infer op: legal containers and wrongly typed ones"""
    kind = desc["kind"]
    shape = tuple(desc["shape"])
    if kind == "u8":
        return np.array(desc["codes"], dtype=np.uint8).reshape(shape)
    if kind == "xy":
        xs = np.array(desc["xs"], dtype=np.int32).reshape(shape)
        ys = np.array(desc["ys"], dtype=np.int32).reshape(shape)
        return (xs, ys) if desc.get("form") == "tuple" else np.stack([xs, ys])
    how = desc["other"]
    if how == "codes_int32_2d":      # legal code values, wrong dtype
        return np.array(desc["codes"], dtype=np.int32).reshape(shape)
    if how == "codes_int16_2d":
        return np.array(desc["codes"], dtype=np.int16).reshape(shape)
    if how == "codes_float_2d":
        return np.array(desc["codes"], dtype=np.float32).reshape(shape)
    if how == "codes_u8_3d":         # uint8 but (2, r, c)
        a = np.array(desc["codes"], dtype=np.uint8).reshape(shape)
        return np.stack([a, a])
    if how == "codes_u8_1d":
        return np.array(desc["codes"], dtype=np.uint8)
    if how == "xy_int64":
        return np.stack([np.array(desc["xs"], dtype=np.int64).reshape(shape),
                         np.array(desc["ys"], dtype=np.int64).reshape(shape)])
    if how == "xy_mixed":            # x int32, y int64
        return (np.array(desc["xs"], dtype=np.int32).reshape(shape), np.array(desc["ys"], dtype=np.int64).reshape(shape))
    if how == "xy_list":             # list instead of tuple / ndarray
        return [np.array(desc["xs"], dtype=np.int32).reshape(shape), np.array(desc["ys"], dtype=np.int32).reshape(shape)]
    if how == "xy_3layers":
        a = np.array(desc["xs"], dtype=np.int32).reshape(shape)
        return np.stack([a, a, a])
    raise KeyError(how)


def run_isvalid(ctx, desc):
    from pyflwdir import pyflwdir as pf, core_d8, core_ldd, core_nextxy
    data = build_any(desc)
    try:
        impl_valid = [int(bool(m.isvalid(data))) for m in (core_d8, core_ldd, core_nextxy)]
        try:
            impl_infer = FT_CODE[pf._infer_ftype(data)]
        except ValueError:
            impl_infer = 0
    except Exception as e:  # noqa: BLE001
        ctx.evaluations += 1
        ctx.fail(desc, "spec", f"isvalid / _infer_ftype raised {exc_class(e)}: {e!r}"[:200])
        return
    ctx.count("infer:" + FT_NAME[impl_infer] if impl_infer else "infer:none")
    r, c = desc["shape"]
    if desc["kind"] == "u8":
        dargs = {"kind": 0, "nrow": r, "ncol": c, "codes": desc["codes"]}
    elif desc["kind"] == "xy":
        dargs = {"kind": 1, "nrow": r, "ncol": c, "xs": desc["xs"], "ys": desc["ys"]}
    else:
        dargs = {"kind": 2, "nrow": r, "ncol": c}

    def judge(ans):
        a = ans[0]
        if "__err__" in a:
            return [{"kind": "model", "what": "driver error " + a["__err__"]}]
        fs = []
        if impl_valid != a["spec.valid"]:
            fs.append({"kind": "spec", "what": "isvalid (d8, ldd, nextxy) differs from 'all values in the format's alphabet'",
                       "impl": impl_valid, "spec": a["spec.valid"]})
        if [impl_infer] != a["spec.infer"]:
            fs.append({"kind": "spec", "what": "inferred type is not the first of d8, ldd, nextxy whose value set the raster satisfies",
                       "impl": FT_NAME.get(impl_infer), "spec": FT_NAME.get(a["spec.infer"][0])})
        if impl_valid != a["model.valid"] or [impl_infer] != a["model.infer"]:
            fs.append({"kind": "model", "what": "isvalid/_infer_ftype: implementation != Lean model",
                       "impl": [impl_valid, impl_infer], "model": [a["model.valid"], a["model.infer"]]})
        return fs

    ctx.add(desc, [("c01.isvalid", dargs)], judge, nontrivial=sum(impl_valid) != 0 or desc["kind"] != "other")


# ----------------------------------------------------------------------------------------
# generators
# ----------------------------------------------------------------------------------------
def rand_tab(rng, fmt, shape, style):
    n = shape[0] * shape[1]
    alpha = ALPHA[fmt]
    nd = NODATA[fmt]
    if style == "uniform":
        return [rng.choice(alpha) for _ in range(n)]
    if style == "few_nodata":
        return [nd if rng.random() < 0.12 else rng.choice(alpha[:-1]) for _ in range(n)]
    if style == "links":      # only direction codes: many off-raster pointers and loops
        return [rng.choice(list(DIRS[fmt])) for _ in range(n)]
    if style == "all_pit":
        return [rng.choice(PITS[fmt]) for _ in range(n)]
    if style == "all_nodata":
        return [nd] * n
    if style == "ambiguous":  # values legal for D8 and LDD at once
        return [rng.choice([1, 2, 4, 8, 255]) for _ in range(n)]
    if style == "dem":        # coherent loop-free network from the harness' own steepest descent
        ds = gen_dem_net(rng, shape)
        inv = {v: k for k, v in DIRS[fmt].items()}
        out = []
        for i, d in enumerate(ds):
            if d == n:
                out.append(nd)
            elif d == i:
                out.append(rng.choice(PITS[fmt]))
            else:
                out.append(inv[(d // shape[1] - i // shape[1], d % shape[1] - i % shape[1])])
        return out
    raise KeyError(style)


TAB_STYLES = ["uniform", "uniform", "few_nodata", "few_nodata", "links", "dem", "dem", "all_pit", "all_nodata", "ambiguous"]


def rand_xy_cell(rng, i, shape, nodata_cells):
    """(x, y, feature) of one legal NEXTXY cell"""
    r, c = shape
    ri, ci = divmod(i, c)
    u = rng.random()
    if u < 0.10:
        return -9, -9, "pit-9"
    if u < 0.18:
        return -10, -10, "pit-10"
    if u < 0.40:   # 8-neighbour, possibly off the raster
        dr, dc = rng.choice([(a, b) for a in (-1, 0, 1) for b in (-1, 0, 1) if (a, b) != (0, 0)])
        return ci + dc + 1, ri + dr + 1, "neighbour"
    if u < 0.62:   # any cell of the raster
        j = rng.randrange(r * c)
        return j % c + 1, j // c + 1, "anycell"
    if u < 0.70 and nodata_cells:
        j = rng.choice(nodata_cells)
        return j % c + 1, j // c + 1, "into-nodata"
    if u < 0.76:
        return ci + 1, ri + 1, "self"
    if u < 0.86:   # off the raster on one side (x must stay >= 0 to be legal)
        x, y = rng.choice([(0, ri + 1), (c + 1, ri + 1), (ci + 1, 0), (ci + 1, r + 1), (c + 1, r + 1), (0, 0),
                           (ci + 1, -1), (ci + 1, -5), (c + 7, ri + 1), (ci + 1, r + 9)])
        return x, y, "outside"
    if u < 0.93:   # legal but odd: pit / nodata code in y only
        return ci + 1, rng.choice([-9, -10, -9999]), "y-code-only"
    return rng.randint(0, c + 1), rng.randint(-1, r + 1), "random"


def rand_xy(rng, shape, style, ctx=None):
    n = shape[0] * shape[1]
    if style == "all_nodata":
        return [-9999] * n, [-9999] * n
    if style == "all_pit":
        xs = [rng.choice([-9, -10]) for _ in range(n)]
        return xs, list(xs)
    p_nd = {"uniform": 0.2, "few_nodata": 0.08, "full": 0.0}[style]
    nd_cells = [i for i in range(n) if rng.random() < p_nd]
    xs, ys = [0] * n, [0] * n
    for i in range(n):
        if i in nd_cells:
            xs[i] = ys[i] = -9999
        else:
            xs[i], ys[i], feat = rand_xy_cell(rng, i, shape, nd_cells)
            if ctx is not None:
                ctx.count("xy:" + feat)
    return xs, ys


XY_STYLES = ["uniform", "uniform", "few_nodata", "few_nodata", "full", "all_pit", "all_nodata"]


def rand_mask(rng, desc, ctx):
    """adds mask / mshape / mask_dtype to desc"""
    r, c = desc["shape"]
    n = r * c
    u = rng.random()
    if u < 0.40:
        ctx.count("mask:none")
        return
    desc["mask_dtype"] = rng.choice(["bool", "bool", "uint8", "int64"])
    top = 1 if desc["mask_dtype"] == "bool" else 3
    desc["mshape"] = [r, c]
    if u < 0.70:
        p = rng.choice([0.5, 0.8, 0.9])
        desc["mask"] = [rng.randint(1, top) if rng.random() < p else 0 for _ in range(n)]
        ctx.count("mask:random")
    elif u < 0.78:
        desc["mask"] = [1] * n
        ctx.count("mask:full")
    elif u < 0.84:
        desc["mask"] = [0] * n
        ctx.count("mask:empty")
    elif u < 0.92:
        bad = rng.choice([[r + 1, c], [r, c + 1], [c, r] if r != c else [r, c + 2], [1, n] if r != 1 else [n, 2]])
        desc["mshape"] = bad
        desc["mask"] = [1] * (bad[0] * bad[1])
        ctx.count("mask:wrong-shape")
    else:
        if desc["fmt"] == "nextxy":   # data-shaped 3-D mask, both layers equal
            m = [rng.randint(1, top) if rng.random() < 0.8 else 0 for _ in range(n)]
            desc["mshape"] = [2, r, c]
            desc["mask"] = m + m
            ctx.count("mask:3d")
        else:
            desc["mask"] = [1 if rng.random() < 0.8 else 0 for _ in range(n)]
            ctx.count("mask:random")


def pick_ft(rng, desc, ctx):
    u = rng.random()
    if u < 0.35:
        desc["ft"] = "infer"
    else:
        desc["ft"] = desc["fmt"]
        desc["check"] = rng.random() < 0.7
    ctx.count("ft:" + ("infer" if desc["ft"] == "infer" else "given"))


def enum_tab_cases(rng, fmt):
    """every legal code at every cell of the small shapes; the other cells random legal"""
    for shape in [(1, 1), (1, 2), (2, 1), (1, 3), (3, 1), (2, 2), (2, 3), (3, 2), (3, 3), (1, 4), (4, 1)]:
        n = shape[0] * shape[1]
        for i in range(n):
            for v in ALPHA[fmt]:
                codes = rand_tab(rng, fmt, shape, rng.choice(["uniform", "few_nodata", "links"]))
                codes[i] = v
                yield {"op": "from_array", "fmt": fmt, "shape": list(shape), "codes": codes, "enum": [i, v]}


def enum_xy_cases(rng):
    for shape in [(3, 3), (1, 3), (3, 1), (2, 2), (1, 1)]:
        r, c = shape
        n = r * c
        for i in range(n):
            cells = [(x, y) for x in range(0, c + 2) for y in range(-1, r + 2)]
            cells += [(-9, -9), (-10, -10), (-9999, -9999), (1, -9), (1, -10), (c, -9999)]
            for x, y in cells:
                xs, ys = rand_xy(rng, shape, rng.choice(["uniform", "few_nodata", "full"]))
                xs[i], ys[i] = x, y
                yield {"op": "from_array", "fmt": "nextxy", "shape": list(shape), "xs": xs, "ys": ys,
                       "form": rng.choice(["array", "tuple"]), "enum": [i, x, y]}


def gen_isvalid(rng, ctx, shape):
    r, c = shape
    n = r * c
    u = rng.random()
    desc = {"op": "isvalid", "shape": [r, c]}
    if u < 0.45:
        desc["kind"] = "u8"
        fmt = rng.choice(["d8", "ldd"])
        codes = rand_tab(rng, fmt, shape, rng.choice(TAB_STYLES))
        v = rng.random()
        if v < 0.35:   # one or two illegal values
            for _ in range(rng.randint(1, 2)):
                codes[rng.randrange(n)] = rng.choice([3, 5, 6, 7, 9, 10, 0, 16, 32, 64, 128, 247, 246, 248, 254, 129, 100])
        desc["codes"] = codes
    elif u < 0.80:
        desc["kind"] = "xy"
        xs, ys = rand_xy(rng, shape, rng.choice(XY_STYLES))
        v = rng.random()
        i = rng.randrange(n)
        if v < 0.12:
            xs[i], ys[i] = rng.choice([-1, -5, -11, -8, -9998]), rng.randint(1, r)     # negative non-code x
        elif v < 0.24:
            xs[i], ys[i] = rng.choice([-9, -10]), rng.choice([-10, -9, 1, -9999, 0])   # pit x, possibly different y
        elif v < 0.34:
            xs[i], ys[i] = -9999, rng.choice([-9, 1, 0, -9999])                        # nodata x, possibly different y
        elif v < 0.40:
            xs[i], ys[i] = rng.randint(0, c), rng.choice([-9999, -3, -9, 10 ** 6])     # legal: y is free
        desc["xs"], desc["ys"] = xs, ys
        desc["form"] = rng.choice(["array", "tuple"])
    else:
        desc["kind"] = "other"
        how = rng.choice(["codes_int32_2d", "codes_int16_2d", "codes_float_2d", "codes_u8_3d", "codes_u8_1d",
                          "xy_int64", "xy_mixed", "xy_list", "xy_3layers"])
        desc["other"] = how
        if how.startswith("codes"):
            desc["codes"] = rand_tab(rng, rng.choice(["d8", "ldd"]), shape, rng.choice(["uniform", "dem", "ambiguous"]))
        else:
            desc["xs"], desc["ys"] = rand_xy(rng, shape, rng.choice(["uniform", "full"]))
    ctx.count("isvalid:" + desc["kind"])
    return desc


def dispatch(ctx, desc):
    if desc["op"] == "isvalid":
        run_isvalid(ctx, desc)
    else:
        run_from_array(ctx, desc)


def run(ctx):
    rng = ctx.rng
    if getattr(ctx, "replay", None):
        d = ctx.replay.get("failure", {}).get("desc") or ctx.replay.get("desc")
        if d:
            dispatch(ctx, d)
            return
    quick = ctx.tier == "quick"
    full_enum = (not quick) or ctx.escalate > 1

    # 1. enumeration of code x position class (always first: after a broken table obligation this is what
    #    pins the failing raster down)
    enum = []
    for fmt in ("d8", "ldd"):
        enum += list(enum_tab_cases(rng, fmt))
    enum += list(enum_xy_cases(rng))
    if not full_enum:
        # quick tier: every (format, code, position class) of the 3x3 raster, a third of the rest
        enum = [d for d in enum if d["shape"] == [3, 3] and d["fmt"] != "nextxy" or rng.random() < 0.33]
    for d in enum:
        ctx.count("enum:" + d["fmt"])
        if rng.random() < 0.5:
            rand_mask(rng, d, ctx)
        pick_ft(rng, d, ctx)
        if d["fmt"] != "nextxy" and rng.random() < 0.5:
            d["reuse_buffer"] = True
        dispatch(ctx, d)
        if len(ctx.cases) > 500:
            ctx.flush()

    # 2. random rasters
    nrand = (220 if quick else 7000) * ctx.escalate
    max_cells, max_side = (56, 9) if quick else (1600, 40)
    for k in range(nrand):
        if quick or rng.random() < 0.85:
            shape = gen_shape(rng, max_cells=56, max_side=9)
        else:
            shape = (rng.randint(2, max_side), rng.randint(2, max_side))
        fmt = rng.choice(["d8", "ldd", "nextxy"])
        desc = {"op": "from_array", "fmt": fmt, "shape": list(shape)}
        if fmt == "nextxy":
            style = rng.choice(XY_STYLES)
            desc["xs"], desc["ys"] = rand_xy(rng, shape, style, ctx)
            desc["form"] = rng.choice(["array", "tuple"])
        else:
            style = rng.choice(TAB_STYLES)
            desc["codes"] = rand_tab(rng, fmt, shape, style)
            for v in set(desc["codes"]):
                ctx.count(f"code:{fmt}:{v}", desc["codes"].count(v))
        ctx.count(f"style:{fmt}:{style}")
        ctx.count("shape:" + ("1xN" if shape[0] == 1 else "Nx1" if shape[1] == 1 else "RxC"))
        rand_mask(rng, desc, ctx)
        pick_ft(rng, desc, ctx)
        if fmt != "nextxy" and rng.random() < 0.5:
            desc["reuse_buffer"] = True     # the same ndarray object is re-filled in place from case to case
            ctx.count("reused-buffer")
        dispatch(ctx, desc)
        if len(ctx.cases) > 500:
            ctx.flush()

    # 3. validity predicates and type inference
    nval = (150 if quick else 4000) * ctx.escalate
    for k in range(nval):
        shape = gen_shape(rng, max_cells=30, max_side=6)
        dispatch(ctx, gen_isvalid(rng, ctx, shape))
        if len(ctx.cases) > 500:
            ctx.flush()
