"""C14 (and C13) extension `gvf` - `rivers.rivdph_gvf`, the `method='gvf'` branch of `Flwdir.river_depth`.

The ODE solver is an ORACLE. For the duration of one call the module attribute `pyflwdir.rivers.solve_ivp` is
replaced by a recording stand-in (restored afterwards) that records for every call, in call order, the cell
(read from the caller's frame), the inputs `(t_span, y0 = h0, args = (manning, qbankfull, slp, rivwth))` and the
outputs `(h1, success)`; a recording `logger` notes which answers the implementation rejected. The stand-in
either forwards to the real `scipy.integrate.solve_ivp` ("real") or answers from a script written to hit every
branch of the acceptance test ("scripted": steep, negative, `-0.0`, failed, NaN, below `min_rivdph`, exactly on
the threshold `|h1-h0| = |dx|`, one ulp beyond it). The recorded answers are handed to the Lean model
(`lean/PfVerif/Model/C14_gvf.lean`, op `c14g_gvf`), which consumes them in order and decides everything else:
which cells call the solver, in which order, with which `h0`, `dx`, `slp` and further arguments, which answers
are accepted, what is stored, what stays unchanged.

Numbers: no dyadic / exact-arithmetic input discipline. With the scripted solver the fields are arbitrary binary64
values (zero and negative link lengths, zero / negative discharge and width, non-finite Manning depths); with the
real solver they describe a gentle river with random 53-bit values (RK45 needs 10^4..10^6 steps on steep or
near-critical links, which would only test scipy), perturbed so that some answers are negative or steeper than
1:1 and must be rejected. Every float travels as its binary64 bit pattern; the model performs the loop's
float operations (`-`, `/`, comparisons, Python `max`) exactly as IEEE-754 prescribes, so all comparisons below
are equalities of bit patterns (NaN patterns canonicalised on both sides). The float layer itself is compared
with numpy by `c14g_farith`.

Failure kinds. `spec`: the implementation's own observable behaviour contradicts a theorem of
`Props/C14_gvf.lean` or the declarative `spec.*` answers (frame, call list, `h0` = downstream value of the same
iteration, last accepted call wins, >= min_rivdph, all rejected => unchanged, n_iter = 0, documented errors,
argument purity, determinism). `model`: implementation and Lean model differ (predicted call arguments,
accepted flags, final depths).
"""
import struct
import sys
import types
import warnings
import numpy as np
from common import (gen_raster_net, gen_forest, mk_raster, mk_vector, canon_idx, net_features, max_path_len,
                    topo_of)

OPS = ["rivers.rivdph_gvf(real solver)", "rivers.rivdph_gvf(scripted solver)", "river_depth(gvf, real solver)",
       "river_depth(gvf, scripted solver)", "river_depth(gvf) documented errors", "binary64 layer"]
RULE = ("random loop-free networks <= 25 cells (forests as Flwdir, D8 networks as FlwdirRaster), arbitrary binary64 fields (no "
        "dyadic discipline), positive / zero / negative discharge and width, n_iter 0..3, cell orders: idxs_seq, the harness' own "
        "breadth-first order, shuffled and partial orders (kernel level); solver = real scipy RK45 (gentle rivers) or scripted "
        "answers hitting every branch of the acceptance test; thorough / escalated: every loop-free network on <= 4 nodes x "
        "every eligibility pattern")

NAN = 0x7FF8000000000000
POOL = []          # bit patterns seen as solver arguments / answers: operands for the binary64 layer test


def f2b(x):
    """float -> canonical bit pattern (python int, unsigned)"""
    x = float(x)
    if x != x:
        return NAN
    return struct.unpack("<Q", struct.pack("<d", x))[0]


def b2f(b):
    return struct.unpack("<d", struct.pack("<Q", int(b)))[0]


def bits(a):
    a = np.asarray(a, dtype=np.float64).ravel()
    return [f2b(v) for v in a.tolist()]


def u64(v):
    return np.array(v, dtype=np.uint64)


def drv_err(a):
    for x in a:
        if "__err__" in x:
            return [{"kind": "model", "what": "c14_gvf: driver error " + x["__err__"]}]
    return None


# ---------------------------------------------------------------------------------------------
# the oracle: recording stand-in for pyflwdir.rivers.solve_ivp + recording logger
# ---------------------------------------------------------------------------------------------
class Recorder:
    def __init__(self, real, script=None):
        self.real = real
        self.script = script      # callable(cell, h0, dx, k) -> (h1, ok)   or None = real solver
        self.calls = []

    def __call__(self, fun, t_span, y0, method=None, args=None, **kw):
        fr = sys._getframe(1)
        cell = fr.f_locals.get("idx")
        out_now = fr.f_locals.get("rivdph_out")
        h0 = y0[0]
        rec = {"cell": int(cell) if cell is not None else -1, "t0": t_span[0], "dx": t_span[1], "h0": h0,
               "args": tuple(args) if args is not None else (), "method": method, "extra_kw": sorted(kw),
               "ny0": len(y0), "rejected": False,
               "snapshot": None if out_now is None else np.array(out_now, dtype=np.float64)}
        if self.script is None:
            sol = self.real(fun, t_span, y0, method=method, args=args, **kw)
            h1, ok = sol.y[-1][-1], bool(sol.success)
        else:
            h1, ok = self.script(rec["cell"], float(h0), float(t_span[1]), len(self.calls))
            h1 = np.float64(h1)
            sol = types.SimpleNamespace(y=np.array([[np.float64(h0), h1]]), t=np.array([0.0, float(t_span[1])]),
                                        success=ok, status=0 if ok else -1, message="scripted answer")
        rec["h1"], rec["ok"] = np.float64(h1), bool(ok)
        self.calls.append(rec)
        return sol

    def warning(self, *a, **k):            # logger protocol: the implementation rejected the last answer
        if self.calls:
            self.calls[-1]["rejected"] = True

    info = debug = error = warning


def with_oracle(script, thunk):
    """run thunk(recorder) with rivers.solve_ivp replaced; always restored"""
    from pyflwdir import rivers
    real = rivers.solve_ivp
    if isinstance(real, Recorder):      # never nest
        real = real.real
    rec = Recorder(real, script)
    rivers.solve_ivp = rec
    try:
        with warnings.catch_warnings():
            warnings.simplefilter("ignore")
            with np.errstate(all="ignore"):
                res = thunk(rec)
    finally:
        rivers.solve_ivp = real
    return res, rec


def make_script(rng, min_dph):
    """scripted solver: answers chosen from the branches of the acceptance test, relative to (h0, dx)"""
    kinds = ["near", "near", "near", "below_min", "steep", "negative", "failed", "edge", "edge+", "negzero", "nan",
             "same", "inf"]
    mix = rng.choice(["all", "all", "all", "accepting", "rejecting"])

    def script(cell, h0, dx, k):
        if mix == "accepting":
            kind = rng.choice(["near", "near", "below_min", "same", "edge"])
        elif mix == "rejecting":
            kind = rng.choice(["steep", "negative", "failed", "edge+", "inf"])
        else:
            kind = rng.choice(kinds)
        h0f = h0 if np.isfinite(h0) else 1.0
        adx = abs(dx) if np.isfinite(dx) else 1.0
        if kind == "near":
            return abs(h0f + (rng.random() - 0.5) * min(adx, 3.0)), True
        if kind == "below_min":
            return rng.random() * float(min_dph) * 0.99, True
        if kind == "steep":
            return h0f + rng.choice([-1, 1]) * adx * (1.0 + rng.random() * 3 + 1e-9) + rng.choice([0.0, 1e-3]), True
        if kind == "negative":
            return -rng.choice([1e-300, 1e-9, 0.25, 3.0, 167.5]), True
        if kind == "failed":
            return abs(h0f) + rng.random() * 0.1, False
        if kind == "edge":      # |h1 - h0| == |dx| exactly when representable: quotient is 1, not > 1
            return h0f + adx, True
        if kind == "edge+":     # one ulp beyond the threshold
            return float(np.nextafter(np.float64(h0f + adx), np.inf)), True
        if kind == "negzero":
            return -0.0, True
        if kind == "nan":
            return float("nan"), rng.random() < 0.8
        if kind == "inf":
            return float("inf"), True
        return h0f, True        # "same": h1 == h0 (0/0 = NaN for dx == 0: accepted)
    return script, mix


# ---------------------------------------------------------------------------------------------
# networks and fields
# ---------------------------------------------------------------------------------------------
class Net:
    pass


def make_net(rng, max_cells, raster=None):
    N = Net()
    if raster is None:
        raster = rng.random() < 0.35
    if not raster:
        n = rng.randint(2, max_cells)
        N.ds = gen_forest(rng, n, fanin_bias=rng.choice([0.0, 0.0, 0.5]))
        N.shape = (n,)
        N.flw = mk_vector(N.ds)
    else:
        N.ds, N.shape, _ = gen_raster_net(rng, max_cells=max_cells)
        N.flw = mk_raster(N.ds, N.shape)
    N.raster = raster
    N.n = len(N.ds)
    feat = net_features(N.ds)
    N.nontriv = feat["valid"] >= 3 and max_path_len(N.ds) >= 2
    N.seq = canon_idx(N.flw.idxs_seq, N.n)
    N.base = {"ds": N.ds, "shape": list(N.shape), "class": "FlwdirRaster" if N.raster else "Flwdir"}
    return N


def along(N, start, step):
    out = [0.0] * N.n
    for i in topo_of(N.ds):
        out[i] = start() if N.ds[i] == i else out[N.ds[i]] + step()
    for i in range(N.n):
        if N.ds[i] == N.n:
            out[i] = start()
    return out


def gen_fields(rng, N, real, clean):
    """zs, rivdst, q, w as python float lists.
    real: a gentle, physically coherent river (links >= 50 m, water-surface slope 0.0008..0.004, discharge growing
    downstream, width ~ sqrt(discharge)) - RK45 needs 10^4..10^6 steps on steep or near-critical links, which says
    nothing about the loops; a few cells without river (q = 0; with `clean` = False also q < 0, w <= 0).
    not real (scripted solver): arbitrary values incl. zero and negative link lengths.
    clean: no negative discharge / non-positive width (the Manning depth stays finite)."""
    n = N.n
    if real:
        rivdst = along(N, lambda: rng.choice([0.0, 0.0, 37.5]), lambda: rng.choice([rng.uniform(50, 400), rng.uniform(50, 150), 100.0]))
        zs = [0.0] * n
        z0 = rng.uniform(-2, 5)
        for i in topo_of(N.ds):
            d = N.ds[i]
            zs[i] = z0 if d == i else zs[d] + (rivdst[i] - rivdst[d]) * rng.choice([rng.uniform(0.0008, 0.004), rng.uniform(0.0008, 0.004), 0.002, 0.0])
        nup = [1] * n
        for i in reversed(topo_of(N.ds)):
            if N.ds[i] != i:
                nup[N.ds[i]] += nup[i]
        qb, cw = rng.uniform(5, 60), rng.uniform(3, 8)
        q = [qb * nup[i] * rng.uniform(0.9, 1.1) for i in range(n)]
        w = [cw * q[i] ** 0.5 for i in range(n)]
        for i in range(n):
            u = rng.random()
            if u < 0.12:
                q[i] = 0.0
            elif u < 0.2 and not clean:
                q[i], w[i] = rng.choice([(-1.0, w[i]), (q[i], 0.0), (q[i], -3.0), (-0.0, w[i])])
        if rng.random() < 0.3:
            # a few reaches carry far more water than their neighbours: depth profiles the solver cannot follow
            # (answers below zero or steeper than 1:1, which the loop must reject)
            for i in rng.sample(range(n), max(1, n // 4)):
                if q[i] > 0:
                    q[i] *= rng.choice([3.0, 5.0, 8.0])
        return zs, rivdst, q, w
    rivdst = along(N, lambda: rng.choice([0.0, 0.0, 4.0]), lambda: rng.choice([0.0, 0.0, rng.uniform(0.1, 5), 1.0, 100.0, -2.5, rng.uniform(1, 300)]))
    zs = along(N, lambda: rng.uniform(-2, 5), lambda: rng.choice([rng.uniform(-1, 3), 0.0, 1e-7, rng.uniform(0, 50)]))
    if clean:
        q = [rng.choice([0.0, 1.0, 12.5, 100.0, 2500.0, rng.random() * 1000, rng.random() * 1000]) for _ in range(n)]
        w = [rng.choice([1.0, 5.0, 30.0, 250.0, 1 + rng.random() * 100]) for _ in range(n)]
    else:
        q = [rng.choice([0.0, -1.0, -0.0, 1.0, 12.5, 100.0, rng.random() * 1000, rng.random() * 1000, rng.random() * 1000]) for _ in range(n)]
        w = [rng.choice([0.0, -3.0, 1.0, 5.0, 30.0, 1 + rng.random() * 100, 1 + rng.random() * 100, 1 + rng.random() * 100]) for _ in range(n)]
    return zs, rivdst, q, w


def py_eligible(ds, q, w, i):
    """the harness' own reading of the `continue` test (Python floats)"""
    return not (q[i] <= 0 or w[i] <= 0 or ds[i] == i)


# ---------------------------------------------------------------------------------------------
# judging one run of the kernel (shared by the kernel-level and the wrapper-level cases)
# ---------------------------------------------------------------------------------------------
def impl_replay(desc_op, N, seq, n_iter, rivdph0, q, w, min_dph, calls, out, topo, zs=None, rivdst=None, min_slp=None, manning=None):
    """theorems replayed on the implementation's own observations (no model involved) -> spec failures"""
    fs = []
    n, ds = N.n, N.ds
    outb, inb = bits(out), bits(rivdph0)
    callers = [c for c in seq if py_eligible(ds, q, w, c)]
    exp_cells = callers * n_iter
    got_cells = [c["cell"] for c in calls]
    if got_cells != exp_cells:
        k = next((k for k in range(min(len(got_cells), len(exp_cells))) if got_cells[k] != exp_cells[k]), min(len(got_cells), len(exp_cells)))
        fs.append({"kind": "spec", "what": f"{desc_op}: solver calls are not n_iter x (eligible cells of seq, in order): "
                   f"{len(got_cells)} calls, expected {len(exp_cells)}; first difference at call {k} (gvf_calls / gvf_calls_count)",
                   "impl_cells": got_cells[:40], "expected_cells": exp_cells[:40]})
        return fs
    for k, c in enumerate(calls):
        if c["t0"] != 0 or c["method"] != "RK45" or c["extra_kw"] or c["ny0"] != 1 or len(c["args"]) != 4:
            fs.append({"kind": "spec", "what": f"{desc_op}: call {k} does not have the shape solve_ivp(_gvf, [0, dx], [h0], method='RK45', args=(n, q, slp, w))"})
            return fs
    # frame
    sel = set(callers) if n_iter > 0 else set()
    bad = [i for i in range(n) if i not in sel and outb[i] != inb[i]]
    if bad or len(outb) != len(inb):
        fs.append({"kind": "spec", "what": f"{desc_op}: cells outside seq / pits / cells with qbankfull <= 0 or rivwth <= 0 changed "
                   f"their depth (or the size changed): cells {bad[:6]} (gvf_frame, gvf_size)"})
    # last accepted call wins, value = max(min_rivdph, h1)  (Python's max, as in the code)
    last = {}
    for c in calls:
        if not c["rejected"]:
            last[c["cell"]] = c
    mb = f2b(min_dph)
    for i in range(n):
        if i in last:
            h1 = last[i]["h1"]
            exp = f2b(max(min_dph, h1))
            if outb[i] != exp:
                fs.append({"kind": "spec", "what": f"{desc_op}: cell {i} does not hold max(min_rivdph, h1) of its last accepted call "
                           f"(gvf_value): {b2f(outb[i])!r} vs {b2f(exp)!r}"})
                break
            if not (b2f(outb[i]) >= float(min_dph)) and float(min_dph) == float(min_dph):
                fs.append({"kind": "spec", "what": f"{desc_op}: changed cell {i} holds {b2f(outb[i])!r} < min_rivdph (rivdphGvf_ge_min)"})
                break
        elif outb[i] != inb[i]:
            fs.append({"kind": "spec", "what": f"{desc_op}: cell {i} changed although none of its calls was accepted (gvf_value)"})
            break
    if all(c["rejected"] for c in calls) and outb != inb:
        fs.append({"kind": "spec", "what": f"{desc_op}: every answer was rejected but the result differs from the input (gvf_all_rejected)"})
    if n_iter == 0 and (outb != inb or calls):
        fs.append({"kind": "spec", "what": f"{desc_op}: n_iter = 0 must return the input without calling the solver (gvf_zero_iter)"})
    # h0 = value stored at the downstream cell at that moment; under a downstream-first order = its value at the
    # end of the same iteration (snapshot at the first call of the next iteration / the result)
    m = len(callers)
    for k, c in enumerate(calls):
        snap = c["snapshot"]
        if snap is not None and f2b(snap[ds[c["cell"]]]) != f2b(c["h0"]):
            fs.append({"kind": "spec", "what": f"{desc_op}: call {k}: h0 is not the depth stored at the downstream cell at that moment (sweep_call_moment)"})
            break
        if topo and m:
            t = k // m
            end = calls[(t + 1) * m]["snapshot"] if (t + 1) * m < len(calls) else np.asarray(out, dtype=np.float64).ravel()
            if end is not None and f2b(end[ds[c["cell"]]]) != f2b(c["h0"]):
                fs.append({"kind": "spec", "what": f"{desc_op}: call {k} (iteration {t}): h0 differs from the downstream cell's depth at the "
                           f"end of the same iteration although seq is downstream-first (gvf_h0_topo)"})
                break
    # the other solver arguments, from the implementation's own depths at the start of the iteration (numpy floats):
    # dx = rivdst[i] - rivdst[ds i], slp = max(min_rivslp, (zb[i] - zb[ds i]) / dx) with zb = zs - depths, and the
    # cell's own manning, qbankfull, rivwth (the `ext` clause of gvf_h0_topo)
    if zs is not None and m:
        zs_a, rd_a = np.asarray(zs, dtype=np.float64), np.asarray(rivdst, dtype=np.float64)
        with warnings.catch_warnings():
            warnings.simplefilter("ignore")
            with np.errstate(all="ignore"):
                for k, c in enumerate(calls):
                    t, i = k // m, c["cell"]
                    d = ds[i]
                    snap0 = calls[t * m]["snapshot"]
                    if snap0 is None:
                        break
                    zb = zs_a - snap0
                    dx = rd_a[i] - rd_a[d]
                    slp = max(min_slp, (zb[i] - zb[d]) / dx)
                    exp = (f2b(dx), f2b(manning[i]), f2b(q[i]), f2b(slp), f2b(w[i]))
                    got = (f2b(c["dx"]),) + tuple(f2b(x) for x in c["args"])
                    if exp != got:
                        fs.append({"kind": "spec", "what": f"{desc_op}: call {k} (iteration {t}, cell {i}): solver arguments (dx, manning, q, slp, w) "
                                   f"= {[b2f(x) for x in got]} are not those of the cell with the bed levels zs - depth at the start of the "
                                   f"iteration {[b2f(x) for x in exp]} (gvf_h0_topo, ext clause)"})
                        break
    return fs


def model_args(N, seq, n_iter, zs, rivdph0, q, rivdst, w, manning, min_slp, min_dph, calls):
    return {"ds": N.ds, "seq": seq, "n_iter": n_iter, "zs": u64(bits(zs)), "rivdph": u64(bits(rivdph0)),
            "qbankfull": u64(bits(q)), "rivdst": u64(bits(rivdst)), "rivwth": u64(bits(w)), "manning": u64(bits(manning)),
            "min_rivslp": u64([f2b(min_slp)]), "min_rivdph": u64([f2b(min_dph)]),
            "orc_h1": u64([f2b(c["h1"]) for c in calls]), "orc_ok": [1 if c["ok"] else 0 for c in calls]}


def judge_model(desc_op, a, calls, out, topo_expected, fs):
    """compare the implementation with the Lean model (`model.*`) and the declarative answers (`spec.*`)"""
    outb = bits(out)
    if a["model.missing"] != [0] or a["model.unused"] != [0]:
        fs.append({"kind": "model", "what": f"{desc_op}: the model made {len(a['model.call.cell'])} calls for {len(calls)} recorded answers "
                   f"(missing {a['model.missing']}, unused {a['model.unused']}): oracle out of step"})
    got = {"cell": [c["cell"] for c in calls], "h0": [f2b(c["h0"]) for c in calls], "dx": [f2b(c["dx"]) for c in calls],
           "manning": [f2b(c["args"][0]) for c in calls], "q": [f2b(c["args"][1]) for c in calls],
           "slp": [f2b(c["args"][2]) for c in calls], "w": [f2b(c["args"][3]) for c in calls],
           "acc": [0 if c["rejected"] else 1 for c in calls]}
    if got["cell"] != a["spec.cells"]:
        fs.append({"kind": "spec", "what": f"{desc_op}: the cells calling the solver differ from n_iter x callers(seq) (Lean spec.cells)"})
    for key in ("cell", "h0", "dx", "slp", "manning", "q", "w", "acc"):
        mv = a["model.call." + key]
        if mv != got[key]:
            k = next((k for k in range(min(len(mv), len(got[key]))) if mv[k] != got[key][k]), min(len(mv), len(got[key])))
            what = {"acc": "accepted flag", "cell": "cell"}.get(key, "solver argument " + key)
            fs.append({"kind": "model", "what": f"{desc_op}: {what} of call {k} differs between implementation and Lean model "
                       f"(impl {got[key][k] if k < len(got[key]) else None}, model {mv[k] if k < len(mv) else None})"})
            break
    if a["spec.frame"] != [1]:
        fs.append({"kind": "model", "what": f"{desc_op}: the model's own result violates gvf_frame (build is not the proved one)"})
    if a["spec.out"] != a["model.out"]:
        fs.append({"kind": "model", "what": f"{desc_op}: Lean model != last-accepted-call form although gvf_value is proved"})
    if a["topo"] == [1] and a["spec.rec"] != a["model.out"]:
        fs.append({"kind": "model", "what": f"{desc_op}: Lean model != position-indexed sweepDown form although gvf_eq_rec is proved"})
    if topo_expected and a["topo"] != [1]:
        fs.append({"kind": "spec", "what": f"{desc_op}: cell order is not downstream-first (C03 hypothesis)"})
    if a["topo"] == [1] and outb != a["spec.rec"]:
        bad = [i for i in range(len(outb)) if i >= len(a["spec.rec"]) or outb[i] != a["spec.rec"][i]]
        fs.append({"kind": "spec", "what": f"{desc_op}: result differs from the recurrence 'caller i holds max(min_rivdph, h1) if its answer "
                   f"passes the test against the downstream depth of the same iteration, else its previous depth' at cells {bad[:6]} "
                   f"(gvf_rec / spec.rec)", "impl": [b2f(x) for x in outb], "spec": [b2f(x) for x in a["spec.rec"]]})
    if outb != a["model.out"]:
        bad = [i for i in range(len(outb)) if i >= len(a["model.out"]) or outb[i] != a["model.out"][i]]
        fs.append({"kind": "model", "what": f"{desc_op}: implementation != Lean model at cells {bad[:6]}",
                   "impl": [b2f(x) for x in outb], "model": [b2f(x) for x in a["model.out"]]})
    return fs


def count_calls(ctx, calls, tag):
    if len(POOL) < 4000:
        for c in calls:
            POOL.extend([f2b(c["h0"]), f2b(c["h1"]), f2b(c["dx"]), f2b(c["args"][2])])
    ctx.count(f"gvf:{tag}:calls", len(calls))
    ctx.count(f"gvf:{tag}:accepted", sum(1 for c in calls if not c["rejected"]))
    for c in calls:
        if c["rejected"]:
            h1, h0, dx = float(c["h1"]), float(c["h0"]), float(c["dx"])
            steep = abs((h1 - h0) / dx) > 1 if dx != 0 else (h1 != h0)
            why = "not-success" if not c["ok"] else {(True, True): "steep+negative", (True, False): "steep-only",
                                                     (False, True): "negative-only"}.get((bool(steep), h1 < 0), "other")
            ctx.count(f"gvf:{tag}:rejected:{why}")
    if calls and all(c["rejected"] for c in calls):
        ctx.count(f"gvf:{tag}:cases-all-rejected")


# ---------------------------------------------------------------------------------------------
# kernel level: rivers.rivdph_gvf
# ---------------------------------------------------------------------------------------------
def case_kernel(ctx, rng, N, real):
    from pyflwdir import rivers
    n = N.n
    zs, rivdst, q, w = gen_fields(rng, N, real, clean=False)
    d0 = rng.uniform(0.8, 3)
    rivdph0 = [d0 * rng.uniform(0.85, 1.2) for _ in range(n)] if real else \
        [rng.choice([1.0, rng.uniform(0.3, 6), rng.uniform(0.3, 6)]) for _ in range(n)]
    manning = [rng.choice([0.03, 0.03, 0.05, 0.02 + rng.random() * 0.08]) for _ in range(n)]
    min_slp = rng.choice([1e-5, 1e-5, 1e-3]) if real else rng.choice([1e-5, 1e-5, 1e-3, 0.25])
    min_dph = rng.choice([1, 1, 0.5, 2.0, 0])
    n_iter = rng.choice([0, 1, 1, 2, 2, 3])
    valid = [i for i in range(n) if N.ds[i] != n]
    order = rng.choice(["idxs_seq", "idxs_seq", "bfs", "partial", "shuffled"] if not real else ["idxs_seq", "idxs_seq", "bfs", "partial"])
    if order == "idxs_seq":
        seq = list(N.seq)
    elif order == "bfs":
        seq = topo_of(N.ds)
    elif order == "partial":            # downstream-closed part of the network, still downstream-first
        keep = set()
        for i in topo_of(N.ds):
            if N.ds[i] == i:
                if rng.random() < 0.8:
                    keep.add(i)
            elif N.ds[i] in keep and rng.random() < 0.75:
                keep.add(i)
        seq = [i for i in topo_of(N.ds) if i in keep]
    else:                               # any order: the model does not need downstream-first
        seq = list(valid)
        rng.shuffle(seq)
        seq = seq[: rng.randint(0, len(seq))]
    topo = order != "shuffled"
    tag = "real" if real else "scripted"
    op = f"rivers.rivdph_gvf({tag} solver)"
    script, mix = (None, "real") if real else make_script(rng, min_dph)
    desc = {"op": op, **N.base, "seq": seq, "order": order, "n_iter": n_iter, "zs": zs, "rivdst": rivdst, "qbankfull": q,
            "rivwth": w, "rivdph": rivdph0, "manning": manning, "min_rivslp": min_slp, "min_rivdph": min_dph,
            "script": mix}
    arrs = {"zs": np.array(zs), "rivdph": np.array(rivdph0), "q": np.array(q), "rivdst": np.array(rivdst), "w": np.array(w),
            "manning": np.array(manning)}
    seq_np = np.array(seq, dtype=N.flw.idxs_ds.dtype)
    before = {k: v.tobytes() for k, v in arrs.items()}
    before["seq"] = seq_np.tobytes()
    ds_before = N.flw.idxs_ds.tobytes()

    def thunk(rec):
        return rivers.rivdph_gvf(N.flw.idxs_ds, seq_np, arrs["zs"], arrs["rivdph"], arrs["q"], arrs["rivdst"], arrs["w"],
                                 arrs["manning"], min_rivslp=min_slp, min_rivdph=min_dph, n_iter=n_iter, logger=rec)
    try:
        out, rec = with_oracle(script, thunk)
    except Exception as e:  # noqa: BLE001
        ctx.fail(desc, "spec", f"{op}: raised {type(e).__name__}: {str(e)[:160]} on a valid input")
        return
    calls = rec.calls
    ctx.count("op:" + op)
    ctx.count(f"gvf:order={order}")
    ctx.count(f"gvf:n_iter={n_iter}")
    count_calls(ctx, calls, tag)
    fs0 = []
    changed = [k for k, v in arrs.items() if v.tobytes() != before[k]]
    if seq_np.tobytes() != before["seq"] or N.flw.idxs_ds.tobytes() != ds_before:
        changed.append("seq/idxs_ds")
    if changed:
        fs0.append({"kind": "spec", "what": f"{op}: argument arrays modified: {changed} (C13)"})
    if not isinstance(out, np.ndarray) or out.dtype != np.float64 or out.shape != (n,) or out is arrs["rivdph"]:
        fs0.append({"kind": "spec", "what": f"{op}: result must be a new float64 array of the network size"})
        ctx.fail(desc, "spec", fs0[-1]["what"])
        return
    fs0 += impl_replay(op, N, seq, n_iter, rivdph0, q, w, min_dph, calls, out, topo, zs, rivdst, min_slp, manning)
    args = model_args(N, seq, n_iter, zs, rivdph0, q, rivdst, w, manning, min_slp, min_dph, calls)

    def judge(ans):
        e = drv_err(ans)
        if e:
            return e
        return judge_model(op, ans[0], calls, out, topo, list(fs0))
    nacc = sum(1 for c in calls if not c["rejected"])
    ctx.add(desc, [("c14g_gvf", args)], judge, nontrivial=N.nontriv and 0 < nacc < len(calls))


# ---------------------------------------------------------------------------------------------
# wrapper level: Flwdir.river_depth(method='gvf')
# ---------------------------------------------------------------------------------------------
def case_wrapper(ctx, rng, N, real):
    n = N.n
    zs, rivdst, q, w = gen_fields(rng, N, real, clean=real)
    min_slp = rng.choice([1e-3, 1e-3, 5e-4]) if real else rng.choice([1e-5, 1e-5, 1e-3])
    min_dph = rng.choice([1, 1, 0.5, 2.0])
    n_iter = rng.choice([0, 1, 2, 2, 3])
    manning = rng.choice([0.03, 0.03, 0.05, None])
    man_arr = np.array([rng.choice([0.02, 0.03, 0.1]) for _ in range(n)]).reshape(N.shape) if manning is None else None
    tag = "real" if real else "scripted"
    op = f"river_depth(gvf, {tag} solver)"
    script, mix = (None, "real") if real else make_script(rng, min_dph)
    f = lambda v: np.array(v, dtype=np.float64).reshape(N.shape)
    arrs = {"qbankfull": f(q), "rivwth": f(w), "zs": f(zs), "rivdst": f(rivdst)}
    if man_arr is not None:
        arrs["manning"] = man_arr
    kw = {"min_rivslp": min_slp, "min_rivdph": min_dph}
    if manning != 0.03 or rng.random() < 0.5:
        kw["manning"] = man_arr if manning is None else manning
    gkw = {} if (n_iter == 2 and rng.random() < 0.5) else {"n_iter": n_iter}
    desc = {"op": op, **N.base, "n_iter": n_iter, "zs": zs, "rivdst": rivdst, "qbankfull": q, "rivwth": w,
            "manning": manning if manning is not None else man_arr.ravel().tolist(), "min_rivslp": min_slp,
            "min_rivdph": min_dph, "script": mix}
    before = {k: v.tobytes() for k, v in arrs.items()}
    try:
        with warnings.catch_warnings():
            warnings.simplefilter("ignore")
            with np.errstate(all="ignore"):
                base = N.flw.river_depth(arrs["qbankfull"], arrs["rivwth"], zs=arrs["zs"], rivdst=arrs["rivdst"], **kw)
        base_flat = np.asarray(base, dtype=np.float64).ravel().copy()
        if real:
            # the real solver refuses a non-finite h0 (ValueError from scipy): keep such cells out of the callers
            for i in N.seq:
                if py_eligible(N.ds, q, w, i) and not np.isfinite(base_flat[N.ds[i]]):
                    ctx.count("gvf:wrapper:skipped-nonfinite-manning-depth")
                    return

        def thunk(rec):
            return N.flw.river_depth(arrs["qbankfull"], arrs["rivwth"], zs=arrs["zs"], rivdst=arrs["rivdst"], method="gvf",
                                     logger=rec, **kw, **gkw)
        out, rec = with_oracle(script, thunk)
        # determinism: the same call again, same oracle answers in the scripted case (replayed by position)
        if real:
            script2 = None
        else:
            answers = [(c["h1"], c["ok"]) for c in rec.calls]
            script2 = lambda cell, h0, dx, k: answers[k] if k < len(answers) else (h0, False)
        out2, rec2 = with_oracle(script2, thunk)
    except Exception as e:  # noqa: BLE001
        ctx.fail(desc, "spec", f"{op}: raised {type(e).__name__}: {str(e)[:160]} on a valid input")
        return
    calls = rec.calls
    ctx.count("op:" + op)
    ctx.count(f"gvf:wrapper:n_iter={n_iter}")
    count_calls(ctx, calls, "wrapper-" + tag)
    fs0 = []
    changed = [k for k, v in arrs.items() if v.tobytes() != before[k]]
    if changed:
        fs0.append({"kind": "spec", "what": f"{op}: argument arrays modified: {changed} (C13)"})
    if not isinstance(out, np.ndarray) or out.dtype != np.float64 or tuple(out.shape) != tuple(N.shape):
        ctx.fail(desc, "spec", f"{op}: result must be a float64 array of the object's shape, got {getattr(out, 'dtype', None)} {getattr(out, 'shape', None)}")
        return
    if bits(out) != bits(out2) or [(c["cell"], f2b(c["h0"]), f2b(c["args"][2])) for c in calls] != \
            [(c["cell"], f2b(c["h0"]), f2b(c["args"][2])) for c in rec2.calls]:
        fs0.append({"kind": "spec", "what": f"{op}: the same call twice gave different results / different solver calls (determinism)"})
    ob, bb = bits(out), bits(base_flat)
    pits = [i for i in range(n) if N.ds[i] == i]
    bad = [i for i in pits if ob[i] != bb[i]]
    if bad:
        fs0.append({"kind": "spec", "what": f"{op}: pits {bad[:6]} do not hold the Manning depth (gvf_frame)"})
    bad = [i for i in range(n) if N.ds[i] == n and ob[i] != f2b(-9999.0)]
    if bad:
        fs0.append({"kind": "spec", "what": f"{op}: cells outside the network {bad[:6]} do not hold -9999"})
    man_flat = np.full(n, manning, dtype=np.float64) if manning is not None else man_arr.ravel()
    fs0 += impl_replay(op, N, N.seq, n_iter, base_flat, q, w, min_dph, calls, out, True, zs, rivdst, min_slp, man_flat.tolist())
    args = model_args(N, N.seq, n_iter, zs, base_flat, q, rivdst, w, man_flat, min_slp, min_dph, calls)

    def judge(ans):
        e = drv_err(ans)
        if e:
            return e
        return judge_model(op, ans[0], calls, out.ravel(), True, list(fs0))
    nacc = sum(1 for c in calls if not c["rejected"])
    ctx.add(desc, [("c14g_gvf", args)], judge, nontrivial=N.nontriv and 0 < nacc < len(calls))


def wrapper_errors(ctx):
    """documented ValueError when zs or rivdst is missing for method='gvf' (with and without rivslp); the solver must
    not be called and the arguments stay untouched"""
    ds = [0, 0, 1, 1]
    flw = mk_vector(ds)
    q, w = np.full(4, 50.0), np.full(4, 20.0)
    zs, rivdst, rivslp = np.array([0.0, 1.0, 2.0, 2.5]), np.array([0.0, 100.0, 250.0, 180.0]), np.full(4, 0.01)
    combos = [({}, "nothing"), ({"zs": zs}, "zs only"), ({"rivdst": rivdst}, "rivdst only"), ({"rivslp": rivslp}, "rivslp only"),
              ({"rivslp": rivslp, "zs": zs}, "rivslp + zs"), ({"rivslp": rivslp, "rivdst": rivdst}, "rivslp + rivdst")]
    for kw, name in combos:
        ctx.count("op:river_depth(gvf) documented errors")
        ctx.evaluations += 1
        snap = {k: v.tobytes() for k, v in kw.items()}
        got, ncalls = "returns", 0
        try:
            _, rec = with_oracle(lambda cell, h0, dx, k: (h0, True), lambda rec: flw.river_depth(q, w, method="gvf", **kw))
            ncalls = len(rec.calls)
        except ValueError:
            got = "ValueError"
        except Exception as e:  # noqa: BLE001
            got = type(e).__name__
        desc = {"op": "river_depth(gvf) documented errors", "ds": ds, "given": name}
        if got != "ValueError":
            ctx.fail(desc, "spec", f"river_depth(method='gvf') with {name} given (zs or rivdst missing) must raise the documented "
                     f"ValueError, got {got}" + (f" after {ncalls} solver calls" if ncalls else ""))
        if any(v.tobytes() != snap[k] for k, v in kw.items()):
            ctx.fail(desc, "spec", "river_depth(method='gvf'): argument arrays modified on the error path (C13)")
    # a complete call on the same object works and leaves it usable
    ctx.evaluations += 1
    try:
        out, rec = with_oracle(None, lambda rec: flw.river_depth(q, w, zs=zs, rivdst=rivdst, method="gvf"))
        if len(rec.calls) != 2 * 3:
            ctx.fail({"op": "river_depth(gvf)", "ds": ds}, "spec", f"default n_iter=2 on 3 eligible cells must call the solver 6 times, got {len(rec.calls)}")
    except Exception as e:  # noqa: BLE001
        ctx.fail({"op": "river_depth(gvf)", "ds": ds}, "spec", f"river_depth(method='gvf'): raised {type(e).__name__}: {str(e)[:160]} on a valid input")


# ---------------------------------------------------------------------------------------------
# regressions (hand-made corner cases of the acceptance test, scripted answers)
# ---------------------------------------------------------------------------------------------
def regressions(ctx):
    from pyflwdir import rivers
    cases = [
        # chain 3->2->1->0 ; answers per call (h1, ok)
        ("threshold", [0, 0, 1, 2], [0.0, 100.0, 200.0, 300.0], 1, [(101.0, True), (202.0, True), (1.0, True)]),     # |h1-h0| = dx: kept; then > dx: rejected
        ("dx-zero", [0, 0, 1, 2], [0.0, 0.0, 0.0, 5.0], 2, [(1.0, True), (2.0, True), (1.5, True), (1.0, True), (1.0, True), (0.2, True)]),
        ("dx-negative", [0, 0, 1, 2], [0.0, -10.0, -20.0, -15.0], 1, [(3.0, True), (4.0, True), (-0.0, True)]),
        ("all-failed", [0, 0, 1, 1], [0.0, 50.0, 80.0, 90.0], 3, [(1.2, False)] * 9),
        ("nan-answer", [0, 0, 1, 1], [0.0, 50.0, 80.0, 90.0], 1, [(float("nan"), True), (float("nan"), False), (0.3, True)]),
        ("last-wins", [0, 0, 1], [0.0, 10.0, 20.0], 3, [(2.0, True), (2.5, True), (3.0, True), (-1.0, True), (50.0, True), (2.75, True)]),
    ]
    for name, ds, rivdst, n_iter, answers in cases:
        n = len(ds)
        N = Net()
        N.ds, N.n, N.shape, N.flw = ds, n, (n,), mk_vector(ds)
        N.seq = canon_idx(N.flw.idxs_seq, n)
        zs = [0.5 * i for i in range(n)]
        q, w, man = [100.0] * n, [30.0] * n, [0.03] * n
        rivdph0 = [1.0 + 0.25 * i for i in range(n)]
        script = lambda cell, h0, dx, k, answers=answers: answers[k] if k < len(answers) else (h0, False)
        op = "rivers.rivdph_gvf(scripted solver)"
        desc = {"op": op, "regression": name, "ds": ds, "rivdst": rivdst, "n_iter": n_iter, "answers": [[repr(a), b] for a, b in answers]}
        try:
            out, rec = with_oracle(script, lambda rec: rivers.rivdph_gvf(
                N.flw.idxs_ds, N.flw.idxs_seq, np.array(zs), np.array(rivdph0), np.array(q), np.array(rivdst), np.array(w),
                np.array(man), n_iter=n_iter, logger=rec))
        except Exception as e:  # noqa: BLE001
            ctx.fail(desc, "spec", f"{op}: raised {type(e).__name__}: {str(e)[:160]} on a valid input")
            continue
        ctx.count("regression:gvf:" + name)
        calls = rec.calls
        fs0 = impl_replay(op, N, N.seq, n_iter, rivdph0, q, w, 1, calls, out, True, zs, rivdst, 1e-5, man)
        args = model_args(N, N.seq, n_iter, zs, rivdph0, q, rivdst, w, man, 1e-5, 1, calls)

        def judge(ans, calls=calls, out=out, fs0=fs0, op=op):
            e = drv_err(ans)
            if e:
                return e
            return judge_model(op, ans[0], calls, out, True, list(fs0))
        ctx.add(desc, [("c14g_gvf", args)], judge, nontrivial=False)


def lean_example(ctx):
    """the concrete input of the non-vacuity examples of Props/C14_gvf.lean: the implementation must return exactly the
    bit patterns the Lean kernel computed there (`by decide +kernel`)"""
    from pyflwdir import rivers
    ds, seq, n = [0, 0, 1, 1, 4], [0, 4, 1, 2, 3], 5
    zs, rivdst = [0.0, 0.5, 1.0, 1.25, 3.0], [0.0, 100.0, 250.0, 175.0, 0.0]
    q, w, man = [80.0, 60.0, 20.0, 0.0, 5.0], [30.0, 25.0, 10.0, 10.0, 5.0], [0.03] * 5
    dph = [1.5, 1.25, 1.0, 2.0, 1.0]
    answers = [(1.5, True), (-1.0, True), (0.25, True), (2.0, False)]
    lean_out = [4609434218613702656, 4607182418800017408, 4607182418800017408, 4611686018427387904, 4607182418800017408]
    lean_slp = [4575296933438234296, 4572414629676717179, 4572414629676717179, 4574336165517728591]
    lean_h0 = [4609434218613702656, 4609434218613702656, 4609434218613702656, 4607182418800017408]
    N = Net()
    N.ds, N.n, N.shape, N.flw, N.seq = ds, n, (n,), mk_vector(ds), seq
    op = "rivers.rivdph_gvf(scripted solver)"
    desc = {"op": op, "regression": "lean-example", "ds": ds, "seq": seq}
    ctx.count("regression:gvf:lean-example")
    try:
        out, rec = with_oracle(lambda cell, h0, dx, k: answers[k] if k < len(answers) else (h0, False), lambda rec: rivers.rivdph_gvf(
            N.flw.idxs_ds, np.array(seq, dtype=N.flw.idxs_ds.dtype), np.array(zs), np.array(dph), np.array(q), np.array(rivdst),
            np.array(w), np.array(man), n_iter=2, logger=rec))
    except Exception as e:  # noqa: BLE001
        ctx.fail(desc, "spec", f"{op}: raised {type(e).__name__}: {str(e)[:160]} on a valid input")
        return
    calls = rec.calls
    fs0 = impl_replay(op, N, seq, 2, dph, q, w, 1, calls, out, True, zs, rivdst, 1e-5, man)
    if bits(out) != lean_out or [f2b(c["args"][2]) for c in calls] != lean_slp or [f2b(c["h0"]) for c in calls] != lean_h0 \
            or [c["rejected"] for c in calls] != [False, True, False, True]:
        fs0.append({"kind": "model", "what": f"{op}: implementation differs from the values of the Lean examples (depths, slopes, h0, accepted flags)"})
    args = model_args(N, seq, 2, zs, dph, q, rivdst, w, man, 1e-5, 1, calls)

    def judge(ans):
        e = drv_err(ans)
        if e:
            return e
        return judge_model(op, ans[0], calls, out, True, list(fs0))
    ctx.add(desc, [("c14g_gvf", args)], judge, nontrivial=True)


# ---------------------------------------------------------------------------------------------
# the binary64 layer of the model against numpy
# ---------------------------------------------------------------------------------------------
def case_farith(ctx, rng, npairs, pool):
    special = [0, 1 << 63, 0x7FF0000000000000, 0xFFF0000000000000, NAN, 1, (1 << 63) | 1, 0x000FFFFFFFFFFFFF,
               0x0010000000000000, 0x7FEFFFFFFFFFFFFF, 0x3FF0000000000000, 0xBFF0000000000000, 0x3FEFFFFFFFFFFFFF,
               0x3FF0000000000001]

    def one():
        u = rng.random()
        if u < 0.15:
            b = rng.getrandbits(64)
        elif u < 0.45:
            b = f2b(rng.uniform(-10, 10) * rng.choice([1, 1, 1e-3, 1e3, 1e-300, 1e300]))
        elif u < 0.6:
            b = rng.choice(special)
        elif u < 0.8 and pool:
            b = rng.choice(pool)
        else:
            b = f2b(rng.choice([0.25, 0.5, 1, 2, 3, 100, 1e-5, 1e-310, 1e308, 5e-324, 0.1, 1 / 3]) * rng.choice([1, -1, 3, 7]))
        return NAN if (b & 0x7FFFFFFFFFFFFFFF) > 0x7FF0000000000000 else b
    A, B = [], []
    for _ in range(npairs):
        a = one()
        b = one() if rng.random() < 0.8 else (a + rng.randint(-3, 3)) % (1 << 64)
        if (b & 0x7FFFFFFFFFFFFFFF) > 0x7FF0000000000000:
            b = NAN
        A.append(a)
        B.append(b)
    x, y = u64(A).view(np.float64), u64(B).view(np.float64)
    with warnings.catch_warnings():
        warnings.simplefilter("ignore")
        with np.errstate(all="ignore"):
            exp = {"sub": bits(x - y), "div": bits(x / y), "lt": [int(v) for v in (x < y)], "le": [int(v) for v in (x <= y)],
                   "abs": bits(np.abs(x)), "max": [f2b(max(float(p), float(r))) for p, r in zip(x, y)]}
    ctx.count("op:binary64 layer")
    ctx.count("farith:pairs", npairs)

    def judge(ans):
        e = drv_err(ans)
        if e:
            return e
        fs = []
        for key, ev in exp.items():
            bad = [k for k in range(npairs) if ans[0][key][k] != ev[k]]
            if bad:
                k = bad[0]
                fs.append({"kind": "model", "what": f"binary64 layer of the model: {key}({A[k]:#018x}, {B[k]:#018x}) = {ans[0][key][k]:#x}, numpy gives "
                           f"{ev[k]:#x} ({len(bad)} of {npairs} pairs differ)"})
        return fs
    ctx.add({"op": "binary64 layer", "pairs": npairs, "first": [hex(A[0]), hex(B[0])]}, [("c14g_farith", {"a": u64(A), "b": u64(B)})],
            judge, nontrivial=True, key={"op": "farith", "a": A[:50], "b": B[:50]})


def exhaustive_small(ctx, rng, nmax):
    """every loop-free network on <= nmax nodes x every eligibility pattern x n_iter in {1, 2}, scripted answers
    (random accept/reject mix), the harness' own breadth-first order; kernel level, no Flwdir object involved"""
    import itertools
    from pyflwdir import rivers
    op = "rivers.rivdph_gvf(scripted solver)"
    for n in range(1, nmax + 1):
        for ds in itertools.product(range(n), repeat=n):
            ds = list(ds)
            ok = True
            for i in range(n):
                j, k = i, 0
                while ds[j] != j and k <= n:
                    j, k = ds[j], k + 1
                ok = ok and ds[j] == j
            if not ok:
                continue
            seq = topo_of(ds)
            for elig in itertools.product([False, True], repeat=n):
                n_iter = rng.choice([1, 2])
                N = Net()
                N.ds, N.n, N.shape = ds, n, (n,)
                q = [rng.uniform(1, 100) if e else rng.choice([0.0, -2.0]) for e in elig]
                w = [rng.uniform(1, 50) if (e or rng.random() < 0.5) else 0.0 for e in elig]
                zs = [rng.uniform(0, 5) for _ in range(n)]
                rivdst = [rng.choice([0.0, 10.0, 25.0, 60.0]) for _ in range(n)]
                dph = [rng.uniform(0.5, 3) for _ in range(n)]
                man = [0.03] * n
                script, mix = make_script(rng, 1)
                ds_np = np.array(ds, dtype=np.int32)
                try:
                    out, rec = with_oracle(script, lambda rec: rivers.rivdph_gvf(
                        ds_np, np.array(seq, dtype=np.int32), np.array(zs), np.array(dph), np.array(q), np.array(rivdst),
                        np.array(w), np.array(man), n_iter=n_iter, logger=rec))
                except Exception as e:  # noqa: BLE001
                    ctx.fail({"op": op, "ds": ds, "universe": True}, "spec", f"{op}: raised {type(e).__name__}: {str(e)[:160]} on a valid input")
                    continue
                calls = rec.calls
                ctx.count("gvf:universe:cases")
                fs0 = impl_replay(op, N, seq, n_iter, dph, q, w, 1, calls, out, True, zs, rivdst, 1e-5, man)
                args = model_args(N, seq, n_iter, zs, dph, q, rivdst, w, man, 1e-5, 1, calls)

                def judge(ans, calls=calls, out=out, fs0=fs0):
                    e = drv_err(ans)
                    if e:
                        return e
                    return judge_model(op, ans[0], calls, out, True, list(fs0))
                ctx.add({"op": op, "universe": True, "ds": ds, "eligible": list(elig), "n_iter": n_iter, "zs": zs, "rivdst": rivdst,
                         "qbankfull": q, "rivwth": w, "rivdph": dph, "script": mix}, [("c14g_gvf", args)], judge,
                        nontrivial=False)
                if len(ctx.cases) > 400:
                    ctx.flush()
    ctx.exhaustive = True


def run(ctx):
    rng = ctx.rng
    quick = ctx.tier == "quick"
    esc = ctx.escalate
    from pyflwdir import rivers as _rv
    if not hasattr(_rv, "solve_ivp") or not hasattr(_rv, "rivdph_gvf"):
        # the oracle is recorded through the module attribute `pyflwdir.rivers.solve_ivp` of `rivers.rivdph_gvf`: a tree
        # that reaches the solver another way (other import form, other function) cannot be observed call by call -
        # only the wrapper's documented errors are judged; counted, not a failure (private structure is not API)
        ctx.count("gvf:solver-hook-absent-in-this-tree")
        ctx.notes.append("C14_gvf: pyflwdir.rivers.solve_ivp / rivdph_gvf not present - oracle-based cases skipped")
        wrapper_errors(ctx)
        return
    wrapper_errors(ctx)
    regressions(ctx)
    lean_example(ctx)
    n_real, n_scr, n_wreal, n_wscr = (100, 400, 50, 160) if quick else (1000, 6000, 500, 2000)
    max_cells = 25
    for k in range(n_scr * esc):
        N = make_net(rng, max_cells)
        case_kernel(ctx, rng, N, real=False)
        if len(ctx.cases) > 300:
            ctx.flush()
    for k in range(n_wscr * esc):
        N = make_net(rng, max_cells)
        case_wrapper(ctx, rng, N, real=False)
        if len(ctx.cases) > 300:
            ctx.flush()
    for k in range(n_real * esc):
        N = make_net(rng, max_cells)
        case_kernel(ctx, rng, N, real=True)
    for k in range(n_wreal * esc):
        N = make_net(rng, max_cells)
        case_wrapper(ctx, rng, N, real=True)
    ctx.flush()
    if not quick or esc > 1:
        exhaustive_small(ctx, rng, 4)
    acc = sum(v for k, v in ctx.hist.items() if k.startswith("gvf:") and k.endswith(":accepted"))
    rej = sum(v for k, v in ctx.hist.items() if k.startswith("gvf:") and ":rejected:" in k)
    if not acc or not rej:
        ctx.notes.append(f"c14_gvf: generator produced accepted={acc} rejected={rej} answers - one branch of the acceptance test was not exercised")
    for _ in range(2 if quick else 20):
        case_farith(ctx, rng, 400 if quick else 2000, POOL)
    ctx.flush()
