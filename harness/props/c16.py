"""C16 - results do not depend on the integer type of the cell indices: every catalogue operation is
executed on network objects built from the same network with int32, int64, uint32 and uint64
downstream indices (FlwdirRaster(idxs_ds.astype(T), ...) / Flwdir(...)); canonical results (index
arrays with their missing value mapped to -1) must be identical across the four dtypes."""
import hashlib
import json

import catalogue
import matrix

OPS = sorted(catalogue.OPS)
RULE = ("random worlds x every catalogue operation that takes a network object x the four index dtypes (the "
        "unsigned ones are otherwise only reachable with > 2^31 cells); non-trivial = the op returned for all four "
        "dtypes and its result contains index-typed data or was computed by index arithmetic; distinct = SHA-1 of "
        "(world, op, args)")
SKIP = {"from_array", "conversion", "from_dem", "fill_depressions_idxs_pit", "slope", "spread2d", "gis_utils"}  # no network object involved
DTYPES = catalogue.IDX_DTYPES


def same_mod_idx(a, b):
    if isinstance(a, list) and isinstance(b, list):
        if len(a) == 4 and len(b) == 4 and a[0] == "arr" and b[0] == "arr":
            tag_ok = a[1] == b[1] or ("idx" in (a[1], b[1]) and all(t == "idx" or t.startswith("int") or t.startswith("uint") for t in (a[1], b[1])))
            return tag_ok and a[2] == b[2] and a[3] == b[3]
        if len(a) == 2 and a[0] == "idx":
            return (b[1] if isinstance(b, list) and len(b) == 2 and b[0] == "idx" else b) == a[1]
        return len(a) == len(b) and all(same_mod_idx(x, y) for x, y in zip(a, b))
    if isinstance(b, list) and len(b) == 2 and b[0] == "idx":
        return a == b[1]
    return a == b


def run(ctx):
    ctx.no_watchdog()   # this check runs the implementation in worker processes / under its own alarms
    rng = ctx.rng
    nworlds = (14 if ctx.tier == "quick" else 120) * ctx.escalate
    ops = [o for o in OPS if o not in SKIP]
    tasks = matrix.gen_tasks(rng, nworlds, "quick", ops=ops, dtypes=DTYPES)
    if ctx.replay:
        d = ctx.replay["failure"]["desc"]
        for dt in DTYPES:
            tasks.insert(0, {"id": f"replay.{d['op']}.{dt}", "world": d["world"], "op": d["op"], "args": d["args"], "group": "replay", "dtype": dt})
    for t in tasks:
        t["timeout"] = 60
    res = matrix.run_workers(tasks, "plain", {"NUMBA_DISABLE_JIT": "1"}, nproc=14)
    by = {}
    for t in tasks:
        by.setdefault(t["id"].rsplit(".", 1)[0], []).append(t)
    for key, ts in by.items():
        t0 = ts[0]
        desc = {"op": t0["op"], "args": t0["args"], "world": t0["world"]}
        ctx.evaluations += 1
        ctx.count("op:" + t0["op"])
        for _k in catalogue.features(t0):
            ctx.count("feature:" + _k)
        if len(ctx.samples) < 3:
            ctx.samples.append({"op": t0["op"], "args": t0["args"], "shape": t0["world"]["shape"], "dtypes": DTYPES})
        rs = {t["dtype"]: res[t["id"]] for t in ts}
        for r in rs.values():
            if r.get("status") == "harness-exc":
                # constructing the object itself failed for this dtype: that is the property failing
                ctx.fail(desc, "spec", f"network object could not be built / used: {r.get('exc')} {r.get('msg')}", tb=r.get("tb"))
                break
        else:
            ref = rs["int32"]
            ok_all = all(r.get("status") == "ok" for r in rs.values())
            for dt, r in rs.items():
                if r.get("status") != ref.get("status") or (r.get("status") == "exc" and r.get("exc") != ref.get("exc")):
                    ctx.fail(desc, "spec", f"index dtype {dt}: {r.get('status')} {r.get('exc', '')} {r.get('msg', '')[:160]} "
                             f"but int32: {ref.get('status')} {ref.get('exc', '')}", tb=r.get("tb"))
                    break
                if r.get("status") == "ok" and not same_mod_idx(ref["result"], r["result"]):
                    ctx.fail(desc, "spec", f"result with index dtype {dt} differs from int32",
                             int32=json.dumps(ref["result"])[:400], other=json.dumps(r["result"])[:400])
                    break
            if ok_all:
                ctx.nontrivial.add(hashlib.sha1(json.dumps([t0["world"], t0["op"], t0["args"]], sort_keys=True).encode()).hexdigest())
            ctx.impl_validated += 1
