"""C09 - upscaling: correspondence of FlwdirRaster.upscale / upscale_error and of the non-iterative kernels of
pyflwdir/upscale.py with the Lean model (eq), and the certificate checker UpscaleOK / the declarative
connection check evaluated in Lean on the IMPLEMENTATION's output (spec)."""
import numpy as np
from common import gen_dem_net, canon_idx, ints, exc_class, topo_of, D8_DRDC

OPS = ["outlet_pix", "new_outlet", "upscale(dmm)", "upscale(eam)", "upscale(eam_plus)", "upscale(ihu)", "upscale_error",
       "upscale_error(perturbed)", "kernels(exitcell,repcell,nextidx,outlets,maps)", "kernels(arbitrary rep)",
       "arith(subidx_2_idx,cell_edge,in_d8)", "upscale_check"]
RULE = ("loop-free D8/LDD rasters derived by the harness from random DEM-style networks (true 8-neighbour links), "
        "4x4..14x14 (quick) / ..40x40 (thorough), shapes mostly not multiples of the scale factor, per-cell nodata, "
        "blanked rectangular nodata regions (whole coarse cells), many small basins; scale factors 1..6 with >= 2 "
        "coarse cells; default upstream area and user upstream areas (accumulated positive integer / quarter-integer "
        "weights, int32/float64); all four methods per network. non-trivial = coarse raster >= 2 cells and >= 1 coarse "
        "link (non-pit valid coarse cell); distinct = SHA-1 of (op, raster, ftype, scale, method, uparea)")

METHODS = ["dmm", "eam", "eam_plus", "ihu"]
D8_INV = {v: k for k, v in D8_DRDC.items()}
LDD_CODE = {(-1, -1): 7, (-1, 0): 8, (-1, 1): 9, (0, -1): 4, (0, 1): 6, (1, -1): 1, (1, 0): 2, (1, 1): 3}


# ----------------------------------------------------------------------------------------
# generators
# ----------------------------------------------------------------------------------------
def ds_to_raster(ds, shape, ftype):
    """harness' own encoding of a true 8-neighbour network as a D8 / LDD code raster"""
    nrow, ncol = shape
    n = nrow * ncol
    mv, pit = (247, 0) if ftype == "d8" else (255, 5)
    out = np.full(n, mv, dtype=np.uint8)
    for i, d in enumerate(ds):
        if d == n:
            continue
        if d == i:
            out[i] = pit
            continue
        r, c = divmod(i, ncol)
        r1, c1 = divmod(d, ncol)
        out[i] = D8_INV[(r1 - r, c1 - c)] if ftype == "d8" else LDD_CODE[(r1 - r, c1 - c)]
    return out.reshape(shape)


def blank_region(rng, ds, shape, s):
    """set a rectangle (often one or more whole coarse cells) to nodata; cells that drained into it become pits"""
    nrow, ncol = shape
    n = nrow * ncol
    if rng.random() < 0.6:  # aligned with the coarse grid
        cr, cc = rng.randrange(-(-nrow // s)), rng.randrange(-(-ncol // s))
        h, w = rng.choice([1, 1, 2]), rng.choice([1, 1, 2])
        r0, r1, c0, c1 = cr * s, (cr + h) * s, cc * s, (cc + w) * s
    else:
        r0 = rng.randrange(nrow)
        c0 = rng.randrange(ncol)
        r1 = r0 + rng.randint(1, max(1, nrow // 2))
        c1 = c0 + rng.randint(1, max(1, ncol // 2))
    ds = list(ds)
    for i in range(n):
        r, c = divmod(i, ncol)
        if r0 <= r < r1 and c0 <= c < c1:
            ds[i] = n
    for i in range(n):
        if ds[i] != n and ds[ds[i]] == n:
            ds[i] = i
    return ds


def gen_tree_net(rng, shape, p_nodata, mode):
    """Loop-free D8 network = randomised spanning forest of the 8-neighbour grid graph (long winding streams that
    cut through the corners of coarse cells; 'dfs' = few very long rivers, 'prim' = bushy)."""
    nrow, ncol = shape
    n = nrow * ncol
    valid = [rng.random() >= p_nodata for _ in range(n)]
    if sum(valid) < 2:
        valid = [True] * n
    ds = [n] * n
    seen = [False] * n
    order = [i for i in range(n) if valid[i]]
    rng.shuffle(order)
    nroots = rng.choice([1, 1, 2, 3])
    p_deep = 0.9 if mode == "dfs" else 0.0
    for root in order:
        if seen[root]:
            continue
        nroots -= 1
        ds[root] = root
        seen[root] = True
        stack = [root]
        while stack:
            k = len(stack) - 1 if rng.random() < p_deep else rng.randrange(len(stack))
            c = stack[k]
            r, cc = divmod(c, ncol)
            nbrs = []
            for dr in (-1, 0, 1):
                for dc in (-1, 0, 1):
                    r1, c1 = r + dr, cc + dc
                    if (dr or dc) and 0 <= r1 < nrow and 0 <= c1 < ncol:
                        j = r1 * ncol + c1
                        if valid[j] and not seen[j]:
                            nbrs.append(j)
            if not nbrs:
                stack[k] = stack[-1]
                stack.pop()
                continue
            j = rng.choice(nbrs)
            ds[j] = c
            seen[j] = True
            stack.append(j)
            if nroots > 0 and rng.random() < 0.01:
                break  # leave the rest to another root
    return ds


def accumulate(ds, w):
    n = len(ds)
    acc = [0] * n
    for i in range(n):
        if ds[i] != n:
            acc[i] = w[i]
    for i in reversed(topo_of(ds)):
        if ds[i] != i:
            acc[ds[i]] += acc[i]
    return acc


def gen_case(rng, tier):
    hi = 16 if tier == "quick" else (40 if rng.random() < 0.25 else 24)
    many = rng.random() < 0.3   # many coarse cells: this is where ihu's relocation stages have work to do
    while True:
        s = rng.choice([1, 2, 2, 3, 3, 4, 5, 6])
        shape = (rng.randint(3, hi), rng.randint(3, hi))
        if many:
            s = rng.choice([2, 2, 3])
            shape = (rng.randint(12, max(hi, 22)), rng.randint(12, max(hi, 22)))
        if rng.random() < 0.1:
            shape = (rng.randint(1, 2), rng.randint(2 * s, max(2 * s, hi)))
        if rng.random() < 0.1:
            shape = (shape[1], shape[0])
        if rng.random() < 0.15:  # exact multiple of the scale factor
            shape = (-(-shape[0] // s) * s, -(-shape[1] // s) * s)
        if s == 1 and shape[0] * shape[1] > 200:
            continue
        if (-(-shape[0] // s)) * (-(-shape[1] // s)) >= 2:
            break
    fam = rng.choice(["dem", "dem", "tree-dfs", "tree-prim", "tree-prim"])
    if fam == "dem":
        ds = gen_dem_net(rng, shape, p_nodata=rng.choice([0.0, 0.05, 0.15, 0.35]),
                         p_extra_pit=rng.choice([0.0, 0.02, 0.05, 0.3]))
    else:
        ds = gen_tree_net(rng, shape, rng.choice([0.0, 0.0, 0.05, 0.2]), fam[5:])
    feats = ["family-" + fam]
    if rng.random() < 0.3:
        ds2 = blank_region(rng, ds, shape, s)
        if sum(1 for d in ds2 if d != len(ds2)) >= 2:
            ds = ds2
            feats.append("blanked-region")
    return ds, shape, s, feats


def gen_uparea(rng, ds, shape):
    """None (default) or a user upstream area: (2-D array handed to the library, integer array for the model)"""
    n = len(ds)
    u = rng.random()
    if u < 0.5:
        return "default", None, None
    if u < 0.65:
        w = [rng.randint(1, 9) for _ in range(n)]
        acc = accumulate(ds, w)
        dt = rng.choice([np.int32, np.float64])
        return "user-int", np.array(acc, dtype=dt).reshape(shape), acc
    if u < 0.8:
        # large areas (e.g. m2): values far above 2^24 whose downstream increments are below float32
        # resolution - exact in float64 / int64, so any narrowing of the accumulator shows
        # a genuine accumulation (a clipped raster: one or two headwater cells carry a large inflow from
        # outside the domain, local areas are small)
        w = [50 * rng.randint(1, 9) for _ in range(n)]
        has_up = [False] * n
        for i, d in enumerate(ds):
            if d != n and d != i:
                has_up[d] = True
        heads = [i for i in range(n) if ds[i] != n and not has_up[i]]
        for i in rng.sample(heads, min(len(heads), rng.randint(1, 2))):
            w[i] += 20_000_000_000
        acc = accumulate(ds, w)
        dt = rng.choice([np.int64, np.float64])
        return "user-int", np.array(acc, dtype=dt).reshape(shape), acc
    w = [rng.randint(1, 12) for _ in range(n)]  # quarter units
    acc = accumulate(ds, w)
    return "user-quarter", (np.array(acc, dtype=np.float64) / 4.0).reshape(shape), acc


# ----------------------------------------------------------------------------------------
# one network: all ops
# ----------------------------------------------------------------------------------------
def coarse_shape(shape, s):
    return (-(-shape[0] // s), -(-shape[1] // s))


def run_network(ctx, ds, shape, s, ftype, upa_kind, upa_arr, upa_int, methods=METHODS, extras=True):
    import pyflwdir
    from pyflwdir import upscale as U
    rng = ctx.rng
    n = len(ds)
    raster = ds_to_raster(ds, shape, ftype)
    flw = pyflwdir.from_array(raster, ftype=ftype)
    if canon_idx(flw.idxs_ds, n) != ds:  # decoding is C01's subject; here it is only a precondition
        raise RuntimeError("harness: from_array did not decode the raster the harness encoded")
    idt = rng.choice(["int32", "int32", "int32", "int64", "uint32", "uint64"])
    if idt != "int32":
        # the library selects unsigned / 64-bit indices for very large rasters; the same network must upscale alike
        from common import ds_to_np
        flw = pyflwdir.FlwdirRaster(ds_to_np(ds, np.dtype(idt).type), shape, ftype, transform=flw.transform, latlon=flw.latlon)
        ctx.count("index-dtype:" + idt)
    subncol = shape[1]
    if upa_arr is None:
        upa_full = flw.upstream_area()
        upa_model = ints(upa_full)
        if any(float(x) != int(x) for x in np.asarray(upa_full).ravel().tolist()):
            raise RuntimeError("harness: default upstream area is not integer valued")
    else:
        upa_model = upa_int
    ea = [bool(U.effective_area(p, subncol, s)) for p in range(n)]
    shape1 = coarse_shape(shape, s)
    n1 = shape1[0] * shape1[1]
    base = {"raster": raster.tolist(), "ftype": ftype, "scale": s, "uparea_kind": upa_kind,
            "uparea": None if upa_arr is None else np.asarray(upa_arr).tolist()}
    common_args = {"ds": ds, "subshape": list(shape), "cs": s, "upa": upa_model, "ea": ea}
    if shape[0] % s or shape[1] % s:
        ctx.count("feature:shape-not-multiple")
    cellvalid = [False] * n1
    for p in range(n):
        if ds[p] != n:
            cellvalid[(p // subncol // s) * shape1[1] + (p % subncol) // s] = True
    if not all(cellvalid):
        ctx.count("feature:nodata-coarse-cell")
    ctx.count(f"scale:{s}")
    ctx.count("uparea:" + upa_kind)
    ctx.count("ftype:" + ftype)

    results = {}
    for method in methods:
        desc = {"op": "upscale", "method": method, **base}
        try:
            flw1, out = flw.upscale(s, method=method, uparea=upa_arr)
        except Exception as e:
            ctx.evaluations += 1
            ctx.count("upscale-raised:" + method)
            # known finding F09c is one specific mechanism: the kernel itself returns a coarse network with a loop.
            # Establish that on the kernel's own output; anything else that makes the wrapper raise is a new failure.
            mech = ""
            if method == "ihu" and "network is invalid" in str(e):
                try:
                    from pyflwdir import core as _core
                    k_ds, _k_out, _k_shape = U.ihu(subidxs_ds=flw.idxs_ds, subuparea=flw._check_data(upa_arr, "uparea"),
                                                   subshape=flw.shape, cellsize=s, mv=flw._mv)
                    mech = " [kernel output has a coarse loop]" if _core.loop_indices(k_ds, mv=flw._mv).size > 0 else \
                        " [kernel output is loop free]"
                except Exception as e2:  # noqa: BLE001
                    mech = f" [kernel raised {exc_class(e2)}]"
            ctx.fail(desc, "spec", f"upscale(method={method}) must succeed on a loop-free network with >= 2 coarse "
                                   f"cells, raised {exc_class(e)}: {str(e)[:80]}{mech}")
            continue
        cds = canon_idx(flw1.idxs_ds, n1) if flw1.idxs_ds.size == n1 else ints(flw1.idxs_ds)
        o = canon_idx(out, n)
        if len(cds) == n1 and len(o) == n1:
            results[method] = (flw1, out, cds, o)
        links = sum(1 for c in range(len(cds)) if cds[c] != n1 and cds[c] != c)
        nontriv = n1 >= 2 and links >= 1
        ctx.count("method:" + method)
        if method == "ihu" and any(o[c] != n and (o[c] // subncol // s) * shape1[1] + (o[c] % subncol) // s != c
                                   for c in range(len(o))):
            ctx.count("feature:ihu-outlet-outside-own-cell")
        _add_upscale(ctx, desc, common_args, method, tuple(flw1.shape), shape1, cds, o, ds, s, nontriv,
                     ftype_ok=(flw1.ftype == ftype))
        # the deprecated spellings 'com' / 'com2' (any case) are documented as renamed to eam_plus / ihu: same result
        alias = {"eam_plus": "com", "ihu": "com2"}.get(method)
        if alias is not None and ctx.rng.random() < 0.2:
            import warnings as _w
            spelled = ctx.rng.choice([alias, alias.upper(), alias.capitalize()])
            ctx.count("feature:deprecated-method-alias")
            ctx.evaluations += 1
            try:
                with _w.catch_warnings():
                    _w.simplefilter("ignore")
                    flw1a, outa = flw.upscale(s, method=spelled, uparea=upa_arr)
                if tuple(flw1a.shape) != tuple(flw1.shape) or not np.array_equal(flw1a.idxs_ds, flw1.idxs_ds) \
                        or not np.array_equal(np.asarray(outa), np.asarray(out)):
                    ctx.fail({**desc, "alias": spelled}, "spec", f"upscale(method={spelled!r}) (renamed to {method}) "
                             f"returns another coarse network / other outlets than method={method!r}")
            except Exception as e:  # noqa: BLE001
                ctx.fail({**desc, "alias": spelled}, "spec", f"upscale(method={spelled!r}) (renamed to {method}) raised "
                         f"{exc_class(e)}: {str(e)[:80]} although method={method!r} succeeds")

        # connection check through the public wrapper
        try:
            err = flw.upscale_error(flw1, out)
        except Exception as e:
            ctx.evaluations += 1
            ctx.fail({"op": "upscale_error", "method": method, **base}, "spec",
                     f"upscale_error raised {exc_class(e)}: {str(e)[:80]}")
            continue
        _add_error(ctx, {"op": "upscale_error", "method": method, **base}, ds, o, cds, ints(err), None,
                   tuple(err.shape) == shape1 and err.dtype == np.uint8, nontriv)

    # the connection check of an EARLIER result, asked again after the object has upscaled with other methods (same
    # coarse shape, other outlet pixels): the answer depends only on the arguments
    if len(results) >= 2:
        for method, (flw1, out, cds, o) in list(results.items())[:-1]:
            try:
                err2 = flw.upscale_error(flw1, out)
            except Exception as e:  # noqa: BLE001
                ctx.evaluations += 1
                ctx.fail({"op": "upscale_error(re-check)", "method": method, **base}, "spec",
                         f"upscale_error raised {exc_class(e)}: {str(e)[:80]}")
                continue
            ctx.count("upscale_error:re-check-after-other-methods")
            links = sum(1 for c in range(len(cds)) if cds[c] != n1 and cds[c] != c)
            _add_error(ctx, {"op": "upscale_error(re-check)", "method": method, "after": list(results), **base}, ds, o, cds,
                       ints(err2), None, tuple(err2.shape) == shape1 and err2.dtype == np.uint8, n1 >= 2 and links >= 1)

    if "ihu" in results and "eam_plus" in results:
        if results["ihu"][2] != results["eam_plus"][2]:
            ctx.count("feature:ihu-links-differ-from-first-pass")
        if results["ihu"][3] != results["eam_plus"][3]:
            ctx.count("feature:ihu-outlets-relocated")
    if not extras:
        return
    idxs_ds = flw.idxs_ds
    mv = flw._mv
    upa_flat = (flw.upstream_area() if upa_arr is None else np.asarray(upa_arr)).ravel()

    # kernels on the fine network
    if rng.random() < 0.7:
        k = {}
        k["edges"] = ints(U.map_celledge(idxs_ds, shape, s, mv=mv))
        k["effare"] = ints(U.map_effare(idxs_ds, shape, s, mv=mv))
        rep_d = U.dmm_exitcell(idxs_ds, upa_flat, shape, shape1, s, mv=mv)
        k["dmm_exitcell"] = canon_idx(rep_d, n)
        k["dmm_nextidx"] = canon_idx(U.dmm_nextidx(rep_d, idxs_ds, shape, shape1, s, mv=mv), n1)
        rep_e = U.eam_repcell(idxs_ds, upa_flat, shape, shape1, s, mv=mv)
        k["eam_repcell"] = canon_idx(rep_e, n)
        k["eam_nextidx"] = canon_idx(U.eam_nextidx(rep_e, idxs_ds, shape, shape1, s, mv=mv), n1)
        out_i = U.ihu_outlets(rep_e, idxs_ds, upa_flat, shape, shape1, s, mv=mv)
        k["ihu_outlets"] = canon_idx(out_i, n)
        nx, fix = U.ihu_nextidx(out_i, idxs_ds, shape, shape1, s, mv=mv)
        k["ihu_nextidx"] = canon_idx(nx, n1)
        k["ihu_fix"] = ints(fix)
        if k["ihu_fix"]:
            ctx.count("feature:ihu_nextidx-flagged")
        _add_kernels(ctx, {"op": "kernels", **base}, "up_kernels", common_args, k, shape1)

    # traces from arbitrary representative pixels (valid pixels anywhere, or missing)
    valid = [p for p in range(n) if ds[p] != n]
    if rng.random() < 0.5:
        rep = []
        for c in range(n1):
            u = rng.random()
            if u < 0.2:
                rep.append(n)
            elif u < 0.6:
                inside = [p for p in valid if (p // subncol // s) * shape1[1] + (p % subncol) // s == c]
                rep.append(rng.choice(inside) if inside else n)
            else:
                rep.append(rng.choice(valid))
        rep_np = np.array([mv if p == n else p for p in rep], dtype=idxs_ds.dtype)
        k = {}
        k["dmm_nextidx"] = canon_idx(U.dmm_nextidx(rep_np, idxs_ds, shape, shape1, s, mv=mv), n1)
        k["eam_nextidx"] = canon_idx(U.eam_nextidx(rep_np, idxs_ds, shape, shape1, s, mv=mv), n1)
        k["ihu_outlets"] = canon_idx(U.ihu_outlets(rep_np, idxs_ds, upa_flat, shape, shape1, s, mv=mv), n)
        nx, fix = U.ihu_nextidx(rep_np, idxs_ds, shape, shape1, s, mv=mv)
        k["ihu_nextidx"] = canon_idx(nx, n1)
        k["ihu_fix"] = ints(fix)
        _add_kernels(ctx, {"op": "kernels(arbitrary rep)", "rep": rep, **base}, "up_next",
                     {"ds": ds, "subshape": list(shape), "cs": s, "ea": ea, "rep": rep}, k, None)

    # arithmetic helpers on explicit arguments
    if rng.random() < 0.3:
        ps = [rng.randrange(n) for _ in range(12)]
        i0 = [rng.randrange(n1) for _ in range(12)]
        i1 = [rng.randrange(n1) for _ in range(12)]
        imp = {"subidx_2_idx": [int(U.subidx_2_idx(p, subncol, s, shape1[1])) for p in ps],
               "cell_edge": [int(bool(U.cell_edge(p, subncol, s))) for p in ps],
               "in_d8": [int(bool(U.in_d8(a, b, shape1[1]))) for a, b in zip(i0, i1)]}
        _add_kernels(ctx, {"op": "arith", "subidx": ps, "idx0": i0, "idx1": i1, "subncol": subncol, "cs": s,
                           "ncol": shape1[1]}, "up_arith",
                     {"subidx": ps, "subncol": subncol, "cs": s, "ncol": shape1[1], "idx0": i0, "idx1": i1}, imp, None)

    # pieces of ihu's iterative stages: outlet_pix and new_outlet on the first-pass (eam_plus) state
    if "eam_plus" in results and rng.random() < 0.6:
        _, _, cds0, o0 = results["eam_plus"]
        vc0 = [c for c in range(n1) if o0[c] != n and cds0[c] != n1]
        if vc0:
            o_np = np.array([mv if p == n else p for p in o0], dtype=idxs_ds.dtype)
            c_np = np.array([mv if p == n1 else p for p in cds0], dtype=idxs_ds.dtype)
            minlen, minupa = s * 0.25, s * s * 0.25
            _, streams, _, _ = U.upscale_check(o_np, c_np, idxs_ds, minlen=minlen, mv=mv)
            heads = [c for c in vc0 if all(cds0[c2] != c or c2 == c for c2 in range(n1))]
            picks = rng.sample(heads, min(2, len(heads))) + [rng.choice(vc0)]
            allflag = rng.random() < 0.3
            imp = {f"pix{k}": [int(x) for x in U.outlet_pix(c, idxs_ds, shape1[1], subncol, s, all=allflag)]
                   for k, c in enumerate(picks)}
            _add_kernels(ctx, {"op": "outlet_pix", "idxs": picks, "all": allflag, **base}, "up_outlet_pix",
                         {"ds": ds, "subshape": list(shape), "cs": s, "idxs": picks, "all": int(allflag)}, imp, None)
            upa4 = list(upa_model) if upa_kind == "user-quarter" else [4 * x for x in upa_model]
            for idx0 in picks:
                target = None
                if rng.random() < 0.3 and cds0[idx0] != idx0:
                    target = o0[cds0[idx0]]
                st, cd, ou, found = U.new_outlet(idx0, o0[idx0], streams.copy(), c_np.copy(), o_np.copy(), idxs_ds,
                                                 upa_flat, shape1[1], subncol, s, minlen=minlen, minupa=minupa, mv=mv,
                                                 subidx1=target)
                if found:
                    ctx.count("feature:new_outlet-found")
                imp = {"streams": ints(st), "cds": canon_idx(cd, n1), "out": canon_idx(ou, n), "found": [int(bool(found))]}
                _add_kernels(ctx, {"op": "new_outlet", "idx0": idx0, "target": target, **base}, "up_new_outlet",
                             {"ds": ds, "subshape": list(shape), "cs": s, "upa": upa4, "streams": ints(streams),
                              "cds": cds0, "out": o0, "idx0": idx0, "subidx0": o0[idx0], "min_num": s, "min_den": 4,
                              "minupa": s * s, "target": target}, imp, None)

    # perturbed coarse networks / outlets for the connection check and upscale_check
    src = results.get(rng.choice(METHODS))
    if src is not None and rng.random() < 0.8:
        _, _, cds, o = src
        cds, o = list(cds), list(o)
        vc = [c for c in range(n1) if o[c] != n and cds[c] != n1]
        consistent = True
        for _ in range(rng.randint(1, 4)):
            if not vc:
                break
            c = rng.choice(vc)
            u = rng.random()
            if u < 0.4:
                cds[c] = rng.choice(vc)            # redirect the coarse link
            elif u < 0.8:
                o[c] = rng.choice(valid)           # move the outlet pixel (may duplicate another one)
            elif u < 0.9:
                cds[c] = n1                        # link missing, outlet present
                consistent = False
            else:
                o[c] = n                           # outlet missing, link present
                consistent = False
        o_np = np.array([mv if p == n else p for p in o], dtype=idxs_ds.dtype)
        c_np = np.array([mv if p == n1 else p for p in cds], dtype=idxs_ds.dtype)
        flags, fix = U.upscale_error(o_np, c_np, idxs_ds, mv=mv)
        _add_error(ctx, {"op": "upscale_error(perturbed)", "out": o, "cds": cds, **base}, ds, o, cds, ints(flags),
                   ints(fix), True, True)
        if consistent:
            minlen = s * 0.25 if rng.random() < 0.7 else 0
            v, streams, fx, short = U.upscale_check(o_np, c_np, idxs_ds, minlen=minlen, mv=mv)
            imp = {"valid": [int(bool(x)) for x in v.tolist()], "streams": ints(streams), "fix": ints(fx),
                   "short": ints(short)}
            if imp["short"]:
                ctx.count("feature:upscale_check-short")
            _add_kernels(ctx, {"op": "upscale_check", "out": o, "cds": cds, "minlen": minlen, **base}, "up_check",
                         {"ds": ds, "out": o, "cds": cds, "min_num": s if minlen else 0, "min_den": 4}, imp, None)


SPEC_BITS = [("shape", "coarse network does not have ceil(rows/s)*ceil(cols/s) cells"),
             ("d8", "a coarse link leaves the 8-neighbourhood (cannot be exported as D8/LDD)"),
             ("target", "a valid coarse cell points to a missing coarse cell (its flow path never reaches a pit)"),
             ("rank", "coarse network is not loop-free (rank certificate rejected)"),
             ("validiff", "valid coarse cell without outlet pixel or outlet pixel on an invalid coarse cell"),
             ("outlets", "outlet pixels are not distinct valid fine cells"),
             ("cellvalid", "outlet reported for a coarse cell without valid fine cells")]


def _add_upscale(ctx, desc, common_args, method, shape_impl, shape1, cds, o, ds, s, nontriv, ftype_ok):
    n = len(ds)
    mcode = METHODS.index(method)

    def judge(ans):
        a = ans[0]
        if "__err__" in a:
            return [{"kind": "model", "what": "driver error " + a["__err__"]}]
        fs = []
        if shape_impl != shape1 or a["shape"] != list(shape1):
            fs.append({"kind": "spec", "what": f"coarse shape {shape_impl} is not ceil(rows/s) x ceil(cols/s) = {shape1}"})
        if not ftype_ok:
            fs.append({"kind": "spec", "what": "flow direction type of the coarse raster differs from the input"})
        for bit, what in SPEC_BITS:
            if bit == "rank" and a["spec.target"] != [1]:
                continue  # already reported more precisely
            if a["spec." + bit] != [1]:
                fs.append({"kind": "spec", "what": f"{method}: {what}", "impl.cds": cds, "impl.out": o})
        for hyp, what in (("geo", "fine array size / scale factor"), ("finewf", "valid fine cells point to valid fine cells"),
                          ("fined8", "fine links join 8-neighbours"),
                          ("eacross", "the implementation's effective-area map contains the centre cross of every coarse cell"),
                          ("upamono", "upstream area strictly increases downstream")):
            if a["hyp." + hyp] != [1]:
                fs.append({"kind": "model", "what": f"hypothesis of the by-construction theorems (eam_valid, dmm_valid, "
                                                    f"eam_plus_valid) does not hold on this input: {what}"})
        if method != "ihu" and a["spec.owncell"] != [1]:
            fs.append({"kind": "spec", "what": f"{method}: outlet pixel outside its own coarse cell",
                       "impl.cds": cds, "impl.out": o})
        if s == 1:
            ident = [p if ds[p] != n else n for p in range(n)]
            if cds != ds or o != ident:
                fs.append({"kind": "spec", "what": f"{method}: scale factor 1 does not reproduce the input network",
                           "impl.cds": cds, "impl.out": o})
        if method != "ihu":
            if a["model.has"] != [1]:
                fs.append({"kind": "model", "what": f"{method}: Lean model ran out of fuel"})
            else:
                if a["model.cds"] != cds or a["model.out"] != o:
                    fs.append({"kind": "model", "what": f"{method}: implementation != Lean model",
                               "impl.cds": cds, "impl.out": o, "model.cds": a["model.cds"], "model.out": a["model.out"]})
                if a["model.ok"] != [1] or a["model.owncell"] != [1]:
                    fs.append({"kind": "model", "what": f"{method}: the model's own output is rejected by UpscaleOK"})
        return fs

    ctx.add(desc, [("upscale", {**common_args, "method": mcode, "impl.cds": cds, "impl.out": o})], judge,
            nontrivial=nontriv)


def _add_error(ctx, desc, ds, o, cds, flags, fix, meta_ok, nontriv):
    for v, name in ((0, "erroneous"), (1, "connected"), (255, "missing")):
        if v in flags:
            ctx.count("feature:flag-" + name)

    def judge(ans):
        a = ans[0]
        if "__err__" in a:
            return [{"kind": "model", "what": "driver error " + a["__err__"]}]
        fs = []
        if flags != a["spec.flags"]:
            bad = [c for c in range(len(flags)) if c >= len(a["spec.flags"]) or flags[c] != a["spec.flags"][c]][:5]
            fs.append({"kind": "spec", "what": "connection check: flag differs from 'first outlet pixel downstream of "
                       f"the cell's outlet is the outlet of the cell it points to' at coarse cells {bad}",
                       "impl": flags, "spec": a["spec.flags"], "out": o, "cds": cds})
        if a["fuel"] != [0]:
            fs.append({"kind": "model", "what": "upscale_error: Lean model ran out of fuel"})
        else:
            if flags != a["model.flags"]:
                fs.append({"kind": "model", "what": "upscale_error: implementation != Lean model", "impl": flags,
                           "model": a["model.flags"]})
            if fix is not None and fix != a["model.fix"]:
                fs.append({"kind": "model", "what": "upscale_error: list of erroneous cells != Lean model",
                           "impl": fix, "model": a["model.fix"]})
        if not meta_ok:
            fs.append({"kind": "spec", "what": "upscale_error: result is not a uint8 raster of the coarse shape"})
        return fs

    ctx.add(desc, [("up_error", {"ds": ds, "out": o, "cds": cds})], judge, nontrivial=nontriv)


def _add_kernels(ctx, desc, op, args, impl, shape1):
    def judge(ans):
        a = ans[0]
        if "__err__" in a:
            return [{"kind": "model", "what": "driver error " + a["__err__"]}]
        fs = []
        if a.get("fuel") == [1] or any(a.get(k + ".fuel") == [1] for k in impl):
            fs.append({"kind": "model", "what": f"{desc['op']}: Lean model ran out of fuel"})
            return fs
        for k, v in impl.items():
            if a.get(k) != v:
                fs.append({"kind": "model", "what": f"{k}: implementation != Lean model", "impl": v, "model": a.get(k)})
        if shape1 is not None and a["shape"] != list(shape1):
            fs.append({"kind": "model", "what": "coarse shape: implementation != Lean model"})
        return fs

    ctx.add(desc, [(op, args)], judge, nontrivial=True)


def classify(f):
    """signature of a failure for known_findings.json (open entries only)"""
    d = f.get("desc", {})
    what = f.get("what", "")
    if f.get("kind") == "spec" and d.get("op") == "upscale" and d.get("method") == "ihu":
        if "points to a missing coarse cell" in what:
            return "ihu-dangling-link"
        if "must succeed" in what and "network is invalid" in what and "[kernel output has a coarse loop]" in what:
            return "ihu-raises-invalid"
    return None


# ----------------------------------------------------------------------------------------
def _replay(ctx, d):
    """re-run the network of a replay file (all four methods on it)"""
    raster = np.array(d["raster"], dtype=np.uint8)
    shape = raster.shape
    n = raster.size
    ftype = d["ftype"]
    inv = {v: k for k, v in (D8_INV if ftype == "d8" else LDD_CODE).items()}
    mv, pit = (247, 0) if ftype == "d8" else (255, 5)
    ds = []
    for i, code in enumerate(raster.ravel().tolist()):
        if code == mv:
            ds.append(n)
        elif code == pit:
            ds.append(i)
        else:
            dr, dc = inv[code]
            ds.append(i + dr * shape[1] + dc)
    upa_arr = None if d.get("uparea") is None else np.array(d["uparea"])
    upa_int = None
    if upa_arr is not None:
        upa_int = [int(round(float(x) * 4)) for x in upa_arr.ravel().tolist()] if d["uparea_kind"] == "user-quarter" \
            else [int(x) for x in upa_arr.ravel().tolist()]
    run_network(ctx, ds, shape, d["scale"], ftype, d["uparea_kind"], upa_arr, upa_int)


def run(ctx):
    rng = ctx.rng
    if getattr(ctx, "replay", None):
        d = ctx.replay.get("failure", {}).get("desc")
        if d and "raster" in d:
            _replay(ctx, d)
            return
    # corpus: hand-made edge cases (always first)
    for raster, s in CORPUS:
        r = np.array(raster, dtype=np.uint8)
        ds = _decode_d8(r)
        run_network(ctx, ds, r.shape, s, "d8", "default", None, None)
    nnet = (1200 if ctx.tier == "quick" else 6000) * ctx.escalate
    for _ in range(nnet):
        ds, shape, s, feats = gen_case(rng, ctx.tier)
        for f in feats:
            ctx.count("feature:" + f)
        ftype = rng.choice(["d8", "d8", "ldd"])
        kind, upa_arr, upa_int = gen_uparea(rng, ds, shape)
        run_network(ctx, ds, shape, s, ftype, kind, upa_arr, upa_int)
        if len(ctx.cases) > 300:
            ctx.flush()


def _decode_d8(r):
    n = r.size
    ncol = r.shape[1]
    ds = []
    for i, code in enumerate(r.ravel().tolist()):
        if code == 247:
            ds.append(n)
        elif code == 0:
            ds.append(i)
        else:
            dr, dc = D8_DRDC[code]
            ds.append(i + dr * ncol + dc)
    return ds


# west- and north-flowing lines at scale 1 (finding F09a, fixed in 5cca295), a diagonal with nodata, a raster whose
# last coarse row/column is partial, a raster with an all-nodata coarse cell
CORPUS = [
    ([[0, 16, 16, 16]], 1),
    ([[0], [64], [64], [64]], 1),
    ([[2, 247, 247], [247, 2, 247], [247, 247, 0]], 1),
    ([[2, 247, 247], [247, 2, 247], [247, 247, 0]], 2),
    ([[1, 1, 1, 1, 4], [4, 16, 16, 16, 4], [1, 1, 1, 1, 4], [0, 16, 16, 16, 16], [64, 64, 32, 32, 32]], 2),
    ([[247, 247, 1, 4], [247, 247, 1, 4], [1, 1, 1, 4], [1, 1, 1, 0]], 2),
    ([[1, 1, 1, 1, 1, 1, 0], [1, 1, 1, 1, 1, 1, 64], [1, 1, 1, 1, 1, 1, 64]], 3),
    # finding F09b: ihu_minimize_error links coarse cell 0 into the all-nodata coarse cell 1
    ([[2, 0, 247, 247, 0], [247, 2, 247, 247, 8], [1, 2, 2, 2, 4], [247, 247, 128, 4, 4], [247, 1, 1, 2, 4],
      [1, 1, 128, 1, 0]], 2),
    # finding F09c: ihu_minimize_error creates a coarse loop -> upscale raises ValueError on a valid input
    ([[4, 16, 16, 1, 1, 4, 4], [1, 8, 64, 4, 16, 16, 4], [4, 128, 16, 0, 247, 247, 0], [4, 64, 2, 8, 247, 247, 4],
      [1, 8, 32, 2, 8, 0, 4], [1, 2, 64, 4, 0, 32, 8], [2, 128, 4, 128, 2, 16, 32], [128, 8, 1, 2, 8, 16, 64],
      [1, 32, 32, 16, 1, 128, 64]], 2),
]
