"""C04 - accumulation equals the sum over the upstream catchment (mass is conserved).

Correspondence of Flwdir.accuflux (up/down), FlwdirRaster.upstream_area(unit), Flwdir.upstream_area,
streams.upstream_area and gis_utils.area_grid with the Lean models (`model`, exact) and with the
order-independent declarative oracles evaluated in Lean on the same input (`spec`: brute-force catchment
sum per cell, walk to the pit), plus the consequences the property names checked directly on the
implementation's output (mass at the pits, monotonicity, untouched cells, nodata cells, dtype).

Number discipline: integer fields, and float fields made of dyadic rationals k/8 (cell areas: resolutions
whose product / unit factor is a small dyadic) so that every float addition of the implementation is exact;
values travel scaled to integers. Geographic cell areas (trigonometry) cannot be made exact: the
implementation's own per-row areas are the parameter, the float64 additions are replayed bit for bit by the
Lean binary64 model, and the result is compared with the exact rational catchment sum within the rigorous
bound of recursive summation (gamma_n)."""
import struct
from fractions import Fraction

import numpy as np
from common import (gen_raster_net, gen_forest, gen_shape, mk_raster, mk_vector, canon_idx, net_features,
                    max_path_len, exc_class, ds_to_np)

OPS = ["accuflux(up)", "accuflux(down)", "upstream_area(unit) projected", "upstream_area(unit) geographic",
       "Flwdir.upstream_area(area)", "streams.upstream_area", "area_grid", "errors"]
RULE = ("random loop-free networks: D8 networks from random DEMs, arbitrary forests on raster shapes, star "
        "confluences with up to 8 branches, vector networks (<= 40 nodes); both cell orders (walk/sort); fields "
        "of dtype u8/i16/i32/i64/f32/f64 with negative values, nodata cells and nodata values that partial sums "
        "hit; float fields with valid values a dyadic step 2**-4..2**-40 away from the nodata value (nodata -9999, "
        "0, -1, 1, 1e20-like; both signs, both directions); sparse point fields (all zero / all nodata except 1-3 "
        "cells, points also on cells outside the network and on the last cell) on rasters and vector networks of "
        "50..120 cells; per run 5 (escalated: 10) LARGE networks judged by the harness' own integer oracle - two snakes / vector "
        "chains of 52 000..80 000 cells (steps * cells >= 2**31; always under the rank order), a comb of 215 000..420 000 "
        "cells with cells outside the network, two of intermediate size (2 000..75 000, log-uniform) - under the rank order "
        "(order_cells('sort'), ftype='nextxy', vector default) and the walk order, index dtypes i32/i64/u32: cell order, accuflux up/down, "
        "mass at the pits, upstream area in cells; all four area units, projected (unequal/positive resolutions) and geographic grids. non-trivial = "
        ">= 2 valid cells, >= 1 confluence, path length >= 3; distinct = SHA-1 of (op, network, order, field, options)")

NOEND = -999999999999
AREA_UNITS = ["cell", "m2", "ha", "km2"]
# the SI meaning of the units (specification; the code's own AREA_FACTORS table is tied to it by the Lean
# obligation Pf.C04.area_factors_table on the regenerated table, and dynamically here)
SPEC_FACTORS = {"m2": 1.0, "ha": 1e4, "km2": 1e6, "cell": 1}
# (xres, yres): products / {1, 1e4, 1e6} are small dyadics for most pairs; exactness is checked per case
PROJ_RES = [(1000, -1000), (500, -2000), (250, -4000), (2000, -1000), (1000, -500), (500, -500),
            (125, -1000), (1000, 1000), (4000, -2000), (100, -100), (200, -50), (1, -1), (2, -3), (0.5, -0.25)]
GEO_RES = [(0.5, -0.5), (0.25, -0.25), (1.0, -1.0), (0.5, -0.25), (0.25, -0.5), (0.5, 0.5), (0.125, -0.125)]


# ------------------------------------------------------------------------------------------------
# helpers
# ------------------------------------------------------------------------------------------------
def f64_bits(x):
    return struct.unpack("<Q", struct.pack("<d", float(x)))[0]


def f64_sbits(x):
    """bit pattern as a signed 64-bit integer (what is sent to the driver: fits numpy int64)"""
    return struct.unpack("<q", struct.pack("<d", float(x)))[0]


def scaled(a, scale):
    """exact integer image of a numeric array under multiplication by `scale` (non-integers stay Fractions
    rendered as strings so that any comparison with integers fails and the replay stays JSON-able)"""
    out = []
    for x in np.asarray(a).ravel().tolist():
        v = Fraction(x) * scale
        out.append(int(v) if v.denominator == 1 else str(v))
    return out


def is_pow2(d):
    return d > 0 and d & (d - 1) == 0


def gen_star(rng, max_cells):
    """raster on which every cell steps towards one centre cell: the centre has up to 8 inflowing branches"""
    while True:
        nrow, ncol = rng.randint(3, 9), rng.randint(3, 9)
        if nrow * ncol <= max_cells:
            break
    n = nrow * ncol
    r0, c0 = rng.randint(1, nrow - 2), rng.randint(1, ncol - 2)
    ds = [n] * n
    for i in range(n):
        r, c = divmod(i, ncol)
        if rng.random() < 0.08 and (r, c) != (r0, c0) and max(abs(r - r0), abs(c - c0)) > 1:
            continue  # nodata cell
        r1 = r + (r0 > r) - (r0 < r)
        c1 = c + (c0 > c) - (c0 < c)
        ds[i] = r1 * ncol + c1
    # a valid cell must not drain into a nodata cell: make such cells pits
    for i in range(n):
        if ds[i] != n and ds[ds[i]] == n:
            ds[i] = i
    return ds, (nrow, ncol)


def gen_net(rng, max_cells):
    u = rng.random()
    if max_cells > 100 and u < 0.1:  # thorough tier: larger DEM networks (long paths, big catchments)
        from common import gen_dem_net
        shape = (rng.randint(8, 16), rng.randint(8, 16))
        return gen_dem_net(rng, shape, p_extra_pit=0.01), shape, "dem-large"
    if u < 0.12:
        ds, shape = gen_star(rng, max_cells)
        return ds, shape, "star"
    if u < 0.27:
        n = rng.randint(4, 40)
        return gen_forest(rng, n, fanin_bias=rng.choice([0.0, 0.5, 0.8])), None, "vector"
    return gen_raster_net(rng, max_cells=max_cells)


def gen_field(rng, ds):
    """(np array 1-D, nodata (python number), scale, meta): integer or dyadic field, possibly with nodata cells,
    arbitrary values on cells outside the network"""
    n = len(ds)
    nvalid = sum(1 for d in ds if d != n)
    dt = rng.choice(["uint8", "int16", "int32", "int64", "float32", "float64", "float64", "int32"])
    sign = rng.choice(["nonneg", "nonneg", "mixed"])
    hi = 6
    if dt == "uint8":
        sign = "nonneg"
        hi = min(6, 255 // max(nvalid, 1))
        if hi < 1:
            dt = "int32"
            hi = 6
    isf = dt.startswith("float")
    scale = 8 if isf else 1
    if dt == "uint8":
        nodata = rng.choice([0, 255, 3, -9999, hi])
    else:
        nodata = rng.choice([-9999, -9999, -1, 0, 3, 5, -2])
    p_nd = rng.choice([0.0, 0.0, 0.12, 0.35])
    lo = 0 if sign == "nonneg" else -hi
    # large-magnitude exact values: above float32's 2**24 (and, for int64, above float64's 2**53) but with every
    # partial sum inside the dtype - exact in the implementation's own arithmetic, inexact in any narrower one
    base = 0
    if rng.random() < 0.2 and dt in ("int64", "float64", "int32") and nvalid >= 1:
        if dt == "int64":
            base = rng.randint(2 ** 53, 2 ** 61 // nvalid)
        elif dt == "float64":
            base = rng.randint(2 ** 40, 2 ** 52 // nvalid) // scale * scale
        elif (2 ** 31 - 1) // nvalid - 8 > 2 ** 24:
            base = rng.randint(2 ** 24, (2 ** 31 - 1) // nvalid - 8)
    vals = []
    has_nd = False
    for i in range(n):
        if rng.random() < p_nd:
            if dt == "uint8" and nodata < 0:
                v = rng.randint(lo, hi)
            else:
                v = nodata * scale
                has_nd = has_nd or ds[i] != n
        else:
            while True:
                v = rng.randint(lo * scale, hi * scale)
                if base and rng.random() < 0.7:
                    v = base + abs(v)
                if v != nodata * scale:
                    break
        vals.append(v)
    arr = np.array([Fraction(v, scale) for v in vals], dtype=np.float64).astype(dt) if isf else np.array(vals, dtype=dt)
    nd = float(nodata) if isf and rng.random() < 0.5 else nodata
    return arr, nd, scale, {"dtype": dt, "sign": sign, "has_nodata": has_nd, "ints": vals, "large": bool(base)}


# float32-representable nodata values of the "1e20" kind (what GIS float rasters carry): few and many mantissa bits
BIG_NODATA = [2 ** 66, 3 * 2 ** 65, 5 * 2 ** 64, int(np.float32(1e20)), -int(np.float32(1e20)), int(np.float32(3.4e38))]


def _ilog2(x):
    """floor(log2(x)) of a positive integer"""
    return x.bit_length() - 1


def gen_near_field(rng, ds):
    """float field with VALID values very close to, but different from, the nodata value: nodata +- j*u with
    u = 2**-k (k = 4..40; for the 1e20-like nodata values u = 2**-k * 2**floor(log2 |nodata|)), next to cells that
    hold nodata itself, zeros, multiples of u (tiny magnitudes when nodata = 0) and ordinary k/8 values.
    Exactness: every value is an integer multiple of the field's grid step 1/scale and the sum of all magnitudes
    times scale stays below 2**p (p = 24 / 53), so every value and every partial sum the implementation can form is
    exactly representable in the field's dtype; k is lowered (and float32 widened to float64) until that holds.
    Returns like gen_field (scale may be a Fraction < 1 for the large nodata values)."""
    n = len(ds)
    dt = rng.choice(["float32", "float64", "float64"])
    kind = rng.choice(["-9999", "-9999", "0", "0", "-1", "1", "big"])
    nodata = rng.choice(BIG_NODATA) if kind == "big" else int(kind)
    e0 = _ilog2(abs(nodata)) if kind == "big" else 0       # offsets are relative to the binade of a large nodata
    k = rng.randint(4, 40)
    p_near = rng.choice([0.05, 0.15, 0.4])
    p_nd = rng.choice([0.0, 0.0, 0.1, 0.3])
    others = rng.choice(["tiny", "plain", "zero", "mixed"])
    sign = rng.choice(["nonneg", "mixed"])
    cells = []
    for i in range(n):
        u = rng.random()
        if u < p_near:
            cells.append(("near", rng.choice([1, -1, 1, -1, 2, -3])))
        elif u < p_near + p_nd:
            cells.append(("nd", 0))
        else:
            o = others if others != "mixed" else rng.choice(["tiny", "plain", "zero"])
            lo = 0 if sign == "nonneg" else -6
            if o == "tiny":
                cells.append(("tiny", rng.randint(lo, 6)))
            elif o == "plain":
                cells.append(("plain", rng.randint(lo * 8, 48)))
            else:
                cells.append(("zero", 0))
    if not any(c[0] == "near" and ds[i] != n for i, c in enumerate(cells)):
        v = [i for i in range(n) if ds[i] != n]
        if v:
            cells[rng.choice(v)] = ("near", rng.choice([1, -1]))

    def build(k):
        u = Fraction(2) ** (e0 - k)
        w = Fraction(2) ** (e0 - 3)                       # "ordinary" values: multiples of 1/8 (of the binade)
        vals = []
        for i, (what, j) in enumerate(cells):
            x = {"near": nodata + j * u, "nd": Fraction(nodata), "tiny": j * u, "plain": j * w, "zero": Fraction(0)}[what]
            vals.append(x)                                 # (a tiny 0 with nodata 0 simply is one more nodata cell)
        step = min(u, w, Fraction(nodata & -nodata) if nodata else u)   # nodata itself lies on the grid too
        return vals, 1 / step

    while True:
        vals, scale = build(k)
        total = sum(abs(x) for x in vals)
        if total * scale < 2 ** (24 if dt == "float32" else 53) and total < 2 ** (127 if dt == "float32" else 1023):
            break
        if k > 4:
            k -= 1
        elif dt == "float32":
            dt, k = "float64", 40
        else:                                               # cannot happen for <= 2**20 cells; keep the loop total
            cells = [("zero", 0) if c[0] == "near" and rng.random() < 0.5 else c for c in cells]
    ints = [int(x * scale) for x in vals]
    assert all(Fraction(i) == x * scale for i, x in zip(ints, vals))
    arr = np.array([float(x) for x in vals], dtype=np.float64).astype(dt)
    assert [Fraction(float(x)) for x in arr] == vals, "harness: near-nodata field not exactly representable"
    if scale.denominator == 1:
        scale = int(scale)
    nd = float(nodata) if kind == "big" or rng.random() < 0.5 else nodata
    valid = [i for i in range(n) if ds[i] != n]
    tol = Fraction(1, 10 ** 8) + Fraction(1, 10 ** 5) * abs(nodata)
    meta = {"dtype": dt, "sign": "mixed" if any(vals[i] < 0 and vals[i] != nodata for i in valid) else "nonneg",
            "has_nodata": any(vals[i] == nodata for i in valid), "ints": ints, "large": False,
            "near": {"nodata": kind, "k": k,
                     "close": sum(1 for i in valid if vals[i] != nodata and abs(vals[i] - nodata) <= tol)}}
    return arr, nd, scale, meta


def knock_out(ds, cells):
    """the cells leave the network (become nodata cells of the flow raster); cells draining into them become pits"""
    n = len(ds)
    ds = list(ds)
    for c in cells:
        ds[c] = n
    for i in range(n):
        if ds[i] != n and ds[ds[i]] == n:
            ds[i] = i
    return ds


def gen_sparse_net(rng):
    """network of 50..120 cells (raster: D8 from a DEM or arbitrary forest; or vector) with cells outside the
    network; the last cell is inside or outside the network with comparable frequency"""
    if rng.random() < 0.25:
        n = rng.randint(50, 120)
        shape, fam = None, "sparse-vector"
        ds = gen_forest(rng, n, p_nodata=rng.choice([0.1, 0.3]), fanin_bias=rng.choice([0.0, 0.5]))
    else:
        while True:
            shape = (rng.randint(5, 14), rng.randint(5, 14))
            if 50 <= shape[0] * shape[1] <= 120:
                break
        n = shape[0] * shape[1]
        if rng.random() < 0.7:
            from common import gen_dem_net
            ds, fam = gen_dem_net(rng, shape, p_nodata=rng.choice([0.1, 0.3]), p_extra_pit=0.02), "sparse-dem"
        else:
            ds, fam = gen_forest(rng, n, p_nodata=rng.choice([0.1, 0.3]), fanin_bias=rng.choice([0.0, 0.5])), "sparse-forest"
    out = [i for i in range(n) if ds[i] == n]
    ko = []
    if len(out) < 3:
        ko += rng.sample(range(n), rng.randint(2, 6))
    u = rng.random()
    if u < 0.35 and ds[n - 1] != n:
        ko.append(n - 1)
    if ko:
        ds2 = knock_out(ds, ko)
        if sum(1 for d in ds2 if d != n) >= 4:
            ds = ds2
    return ds, shape, fam


def gen_sparse_field(rng, ds):
    """point data: the whole field is zero (or nodata) except 1-3 cells; the points lie inside the network, on cells
    outside the network, on the last cell. Integer or dyadic (k/8) values. Returns like gen_field."""
    n = len(ds)
    dt = rng.choice(["uint8", "int16", "int32", "int64", "float32", "float64"])
    isf = dt.startswith("float")
    scale = 8 if isf else 1
    nodata = rng.choice([0, 255, 3] if dt == "uint8" else [-9999, -9999, -1, 0, 3])
    inside = [i for i in range(n) if ds[i] != n]
    outside = [i for i in range(n) if ds[i] == n]
    bg_in = rng.choice([0, 0, nodata])
    bg_out = rng.choice([0, 0, nodata])
    vals = [(bg_out if ds[i] == n else bg_in) * scale for i in range(n)]
    npts = rng.choice([1, 1, 2, 2, 3])
    where = []
    for _ in range(npts):
        u = rng.random()
        if u < 0.4 and outside:
            i, w = rng.choice(outside), "outside"
        elif u < 0.55:
            i, w = n - 1, "last"
        else:
            i, w = rng.choice(inside), "inside"
        while True:
            v = rng.randint(1, 20 * scale) * (1 if dt == "uint8" or rng.random() < 0.75 else -1)
            if v != nodata * scale:
                break
        vals[i] = v
        where.append(w)
    arr = np.array([Fraction(v, scale) for v in vals], dtype=np.float64).astype(dt) if isf else np.array(vals, dtype=dt)
    nd = float(nodata) if isf and rng.random() < 0.5 else nodata
    nsrc = sum(1 for v in vals if v != 0 and v != nodata * scale)
    meta = {"dtype": dt, "sign": "mixed" if any(vals[i] < 0 and vals[i] != nodata * scale for i in inside) else "nonneg",
            "has_nodata": any(vals[i] == nodata * scale for i in inside), "ints": vals, "large": False,
            "sparse": {"where": sorted(set(where)), "last_in_network": ds[n - 1] != n,
                       "ratio": "<=1/50" if nsrc * 50 <= n else ">1/50",
                       "src_outside": any(vals[i] != 0 and vals[i] != nodata * scale for i in outside)}}
    return arr, nd, scale, meta


def drv_err(a):
    return [{"kind": "model", "what": "driver error " + a["__err__"]}] if "__err__" in a else None


def hyp_failures(a, loopfree=True):
    fs = []
    if a["topo"] != [1]:
        fs.append({"kind": "spec", "what": "cell order handed to the sweep is not downstream-first (C03 hypothesis)"})
    if loopfree and a["cover"] != [1]:
        fs.append({"kind": "spec", "what": "cell order does not consist of exactly the valid cells of a loop-free network"})
    if a["fuelok"] != [1]:
        fs.append({"kind": "spec", "what": "cell order longer than the number of cells"})
    return fs


# ------------------------------------------------------------------------------------------------
# accuflux
# ------------------------------------------------------------------------------------------------
def py_consequences(ds, vals, nodata_i, out, direction):
    """the consequences named by the property, checked on the implementation's (scaled integer) output"""
    n = len(ds)
    fs = []
    if any(not isinstance(x, int) for x in out):
        return [{"kind": "spec", "what": "output is not on the input's dyadic grid (inexact arithmetic)"}]
    valid = [i for i in range(n) if ds[i] != n]
    bad = [i for i in range(n) if ds[i] == n and out[i] != vals[i]]
    if bad:
        fs.append({"kind": "spec", "what": f"cells outside the network changed: {bad[:5]}"})
    bad = [i for i in valid if vals[i] == nodata_i and out[i] != nodata_i]
    if bad:
        fs.append({"kind": "spec", "what": f"cells holding nodata did not keep it: {bad[:5]}"})

    def link(i):
        return ds[i] != i and vals[i] != nodata_i and vals[ds[i]] != nodata_i

    if direction == "up":
        roots = [i for i in valid if not link(i)]
        if sum(out[i] for i in roots) != sum(vals[i] for i in valid):
            fs.append({"kind": "spec", "what": "mass not conserved: totals at pits (and cut links) != total over valid cells"})
        if all(vals[i] >= 0 for i in valid if vals[i] != nodata_i):
            bad = [i for i in valid if link(i) and out[i] > out[ds[i]]]
            if bad:
                fs.append({"kind": "spec", "what": f"accumulation decreases downstream at {bad[:5]}"})
    else:
        bad = [i for i in valid if out[i] != (vals[i] + out[ds[i]] if link(i) else vals[i])]
        if bad:
            fs.append({"kind": "spec", "what": f"downstream accumulation is not own value + downstream accumulation at {bad[:5]}"})
    return fs


def case_accuflux(ctx, flw, ds, shape, seq, order, nontriv, fam, field=None):
    rng = ctx.rng
    n = len(ds)
    if field is not None:
        arr, nd, scale, meta = field
    elif rng.random() < 0.25:
        arr, nd, scale, meta = gen_near_field(rng, ds)
    else:
        arr, nd, scale, meta = gen_field(rng, ds)
    direction = rng.choice(["up", "up", "down"])
    data = arr.reshape(shape) if shape is not None else arr
    out = flw.accuflux(data, nodata=nd, direction=direction)
    if seq is None:   # brand-new object: the first thing it was asked is this accumulation; the order it uses now
        seq = canon_idx(flw.idxs_seq, n)
        ctx.count("accuflux:first-query-on-a-new-object")
    nodata_i = int(Fraction(nd) * scale)
    impl = scaled(out, scale)
    vals = meta["ints"]
    assert scaled(arr, scale) == vals
    shape_ok = out.shape == data.shape and out.dtype == data.dtype
    ctx.count("accuflux:" + direction)
    ctx.count("field:" + meta["dtype"])
    if meta.get("large"):
        ctx.count("field-large-magnitude:" + meta["dtype"])
    ctx.count("field-nodata-cells" if meta["has_nodata"] else "field-no-nodata")
    if meta["sign"] == "mixed":
        ctx.count("field-negative")
    if "near" in meta:
        nr = meta["near"]
        ctx.count("field-near-nodata:nodata=%s:%s" % (nr["nodata"], direction))
        ctx.count("field-near-nodata:step=2**-%d..%d" % (nr["k"] // 10 * 10, nr["k"] // 10 * 10 + 9))
        ctx.count("field-near-nodata:valid-cell-within-1e-8+1e-5*|nodata|" if nr["close"] else "field-near-nodata:none-that-close")
    if "sparse" in meta:
        sp = meta["sparse"]
        ctx.count("field-sparse:" + direction + ":sources" + sp["ratio"])
        ctx.count("field-sparse:points-" + "+".join(sp["where"]))
        if sp["src_outside"]:
            ctx.count("field-sparse:point-outside-network:last-cell-" + ("inside" if sp["last_in_network"] else "outside"))
    # partial sums that equal the nodata value (the F04 situation)
    if any(x == nodata_i and vals[i] != nodata_i for i, x in enumerate(impl) if ds[i] != n):
        ctx.count("partial-sum-equals-nodata")
    desc = {"op": "accuflux", "ds": ds, "shape": list(shape) if shape else None, "order": order, "data_scaled": vals,
            "scale": scale if isinstance(scale, int) else str(scale), "dtype": meta["dtype"], "nodata": nd,
            "direction": direction}
    pyfs = py_consequences(ds, vals, nodata_i, impl, direction)

    def judge(ans):
        a = ans[0]
        if drv_err(a):
            return drv_err(a)
        fs = hyp_failures(a) + list(pyfs)
        if impl != a["spec"]:
            bad = [i for i in range(n) if impl[i] != a["spec"][i]][:5]
            what = ("accumulation differs from the sum over the upstream catchment" if direction == "up"
                    else "downstream accumulation differs from the sum along the flow path") + f" at cells {bad}"
            fs.append({"kind": "spec", "what": what, "impl": impl, "spec": a["spec"]})
        if impl != a["model"]:
            fs.append({"kind": "model", "what": "accuflux: implementation != Lean model", "impl": impl, "model": a["model"]})
        if not shape_ok:
            fs.append({"kind": "spec", "what": f"shape/dtype not preserved: {out.shape} {out.dtype}"})
        return fs

    ctx.add(desc, [("accuflux", {"ds": ds, "seq": seq, "data": vals, "nodata": nodata_i,
                                 "dir": 0 if direction == "up" else 1})], judge, nontrivial=nontriv)


# ------------------------------------------------------------------------------------------------
# upstream area
# ------------------------------------------------------------------------------------------------
def exact_f32_area(q, nvalid):
    """q = cell area in the unit; every partial sum m*q (m <= nvalid) must be a float32"""
    return is_pow2(q.denominator) and nvalid * q.numerator < 2 ** 24 and q.denominator <= 2 ** 20


def case_uparea_projected(ctx, ds, shape, order, nontriv):
    from affine import Affine
    from pyflwdir import gis_utils as gis
    rng = ctx.rng
    n = len(ds)
    nvalid = sum(1 for d in ds if d != n)
    xres, yres = rng.choice(PROJ_RES)
    if rng.random() < 0.3:
        xres, yres = abs(yres), -abs(xres) if yres < 0 else abs(xres)
    tr = Affine(xres, 0.0, rng.choice([0.0, 1000.0, -500.0]), 0.0, yres, rng.choice([0.0, 4000.0]))
    flw = mk_raster(ds, shape, transform=tr, latlon=False)
    if order == "sort":
        flw.order_cells("sort")
    seq = canon_idx(flw.idxs_seq, n)
    units = [u for u in AREA_UNITS]
    rng.shuffle(units)
    results = {}
    for unit in units[:rng.randint(2, 4)]:
        factor = Fraction(SPEC_FACTORS[unit])
        q = Fraction(1) if unit == "cell" else abs(Fraction(xres) * Fraction(yres)) / factor
        if not exact_f32_area(q, nvalid):
            ctx.count("uparea-inexact-combination-skipped")
            continue
        call_unit = unit.upper() if rng.random() < 0.15 else unit  # unit is case-insensitive (str(unit).lower())
        out = flw.upstream_area(call_unit)
        S = q.denominator
        impl = scaled(out, S)
        area = [int(q * S)] * n
        nodata_i = -9999 * S
        results[unit] = (out, q)
        dtype_ok = out.shape == tuple(shape) and (out.dtype == np.int32 if unit == "cell" else out.dtype == np.float32)
        ctx.count("uparea-unit:" + unit)
        ctx.count("uparea-projected")
        if abs(xres) != abs(yres):
            ctx.count("uparea-unequal-res")
        desc = {"op": "upstream_area", "ds": ds, "shape": list(shape), "order": order, "unit": call_unit,
                "latlon": False, "transform": [xres, yres]}

        def judge(ans, impl=impl, out=out, dtype_ok=dtype_ok, unit=unit):
            a = ans[0]
            if drv_err(a):
                return drv_err(a)
            fs = hyp_failures(a)
            if impl != a["spec"]:
                bad = [i for i in range(n) if impl[i] != a["spec"][i]][:5]
                fs.append({"kind": "spec", "what": f"upstream area ({unit}) differs from the catchment sum of cell areas / "
                           f"nodata outside the network at cells {bad}", "impl": impl, "spec": a["spec"]})
            if impl != a["model"]:
                fs.append({"kind": "model", "what": "upstream_area: implementation != Lean model", "impl": impl, "model": a["model"]})
            if not dtype_ok:
                fs.append({"kind": "spec", "what": f"unexpected dtype/shape {out.dtype} {out.shape}"})
            return fs

        ctx.add(desc, [("upstream_area", {"ds": ds, "seq": seq, "area": area, "nodata": nodata_i})], judge, nontrivial=nontriv)
    # linearity between units, on the implementation's outputs (exact rationals)
    us = list(results)
    for u1, u2 in zip(us, us[1:]):
        o1, q1 = results[u1]
        o2, q2 = results[u2]
        ctx.evaluations += 1
        bad = [i for i in range(n) if ds[i] != n and Fraction(o1.flat[i].item()) * q2 != Fraction(o2.flat[i].item()) * q1]
        badnd = [i for i in range(n) if ds[i] == n and (o1.flat[i] != -9999 or o2.flat[i] != -9999)]
        if bad or badnd:
            ctx.fail({"op": "upstream_area", "ds": ds, "shape": list(shape), "units": [u1, u2], "transform": [xres, yres]},
                     "spec", f"upstream area in {u1} and {u2} not proportional (cells {bad[:5]}) or nodata missing ({badnd[:5]})")


def gamma_ok(impl, exact, m):
    """|fl(sum) - sum| <= gamma_m * sum for m additions of non-negative float64 terms"""
    u = Fraction(1, 2 ** 53)
    g = m * u / (1 - m * u)
    return abs(Fraction(impl) - exact) <= g * abs(exact)


def case_uparea_geographic(ctx, ds, shape, order, nontriv):
    from affine import Affine
    from pyflwdir import gis_utils as gis
    rng = ctx.rng
    n = len(ds)
    nrow, ncol = shape
    xres, yres = rng.choice(GEO_RES)
    # keep all rows between 80S and 80N
    span = nrow * abs(yres)
    north = float(rng.randint(-75, int(75 - span))) if yres > 0 else float(rng.randint(int(-75 + span), 75))
    if rng.random() < 0.3:
        # the equator strictly inside a row (not on a row edge): the row's cells span both hemispheres
        r0, frac = rng.randrange(nrow), rng.choice([0.5, 0.25, 0.75, 0.1])
        north = (r0 + frac) * abs(yres) * (1.0 if yres < 0 else -1.0)
        ctx.count("uparea-geographic-row-straddles-equator")
    tr = Affine(xres, 0.0, float(rng.randint(-170, 160)), 0.0, yres, north)
    if rng.random() < 0.4:
        # the same object first used as a projected grid, then switched to geographic by changing ONLY the
        # latlon flag: areas must be those of the geographic grid (no stale cell areas)
        flw = mk_raster(ds, shape, transform=tr, latlon=False)
        flw.upstream_area("km2")
        flw.set_transform(tr, latlon=True)
        ctx.count("uparea-geographic-after-latlon-switch")
    else:
        flw = mk_raster(ds, shape, transform=tr, latlon=True)
    if order == "sort":
        flw.order_cells("sort")
    seq = canon_idx(flw.idxs_seq, n)
    unit = rng.choice(["m2", "ha", "km2", "cell"])
    ctx.count("uparea-geographic")
    ctx.count("uparea-unit:" + unit)
    # the parameter rows: the implementation's own cellarea at the row-centre latitudes (harness' own latitudes)
    lats = np.array([north + (r + 0.5) * yres for r in range(nrow)], dtype=np.float64)
    rows_m2 = gis.cellarea(lats, xres, yres) * np.float32(1.0) / SPEC_FACTORS["m2"]
    area_impl = flw.area
    ctx.evaluations += 1
    if not (area_impl.shape == tuple(shape) and all(
            f64_bits(area_impl[r, c]) == f64_bits(rows_m2[r]) for r in range(nrow) for c in range(ncol))):
        ctx.fail({"op": "area", "shape": list(shape), "transform": [xres, yres, north], "latlon": True}, "spec",
                 "geographic cell area is not cellarea(row-centre latitude) for every cell of the row")
    out = flw.upstream_area(unit)
    if unit == "cell":
        impl = scaled(out, 1)
        desc = {"op": "upstream_area", "ds": ds, "shape": list(shape), "order": order, "unit": unit, "latlon": True}

        def judge_c(ans):
            a = ans[0]
            if drv_err(a):
                return drv_err(a)
            fs = hyp_failures(a)
            if impl != a["spec"]:
                fs.append({"kind": "spec", "what": "upstream area (cell) differs from the catchment cell count", "impl": impl, "spec": a["spec"]})
            if impl != a["model"]:
                fs.append({"kind": "model", "what": "upstream_area: implementation != Lean model", "impl": impl, "model": a["model"]})
            return fs

        ctx.add(desc, [("upstream_area", {"ds": ds, "seq": seq, "area": [1] * n, "nodata": -9999})], judge_c, nontrivial=nontriv)
        return
    rows = rows_m2 / SPEC_FACTORS[unit]
    cell = [rows[i // ncol] for i in range(n)]
    bits = [f64_sbits(x) for x in cell]
    fr = [Fraction(float(x)) for x in cell]
    S = max(f.denominator for f in fr)
    area_i = [int(f * S) for f in fr]
    impl_bits = [f64_bits(x) for x in out.ravel()]
    impl_f = [float(x) for x in out.ravel()]
    desc = {"op": "upstream_area", "ds": ds, "shape": list(shape), "order": order, "unit": unit, "latlon": True,
            "transform": [xres, yres, north]}

    def judge(ans):
        m, s = ans
        if drv_err(m) or drv_err(s):
            return drv_err(m) or drv_err(s)
        fs = hyp_failures(s)
        bad_nd = [i for i in range(n) if ds[i] == n and impl_f[i] != -9999.0]
        if bad_nd:
            fs.append({"kind": "spec", "what": f"cells outside the network not reported as -9999: {bad_nd[:5]}"})
        bad = [i for i in range(n) if ds[i] != n and not gamma_ok(impl_f[i], Fraction(s["spec"][i], S), n)]
        if bad:
            fs.append({"kind": "spec", "what": f"upstream area ({unit}, geographic) outside the rounding bound of the exact "
                       f"catchment sum of row areas at cells {bad[:5]}", "impl": [impl_f[i] for i in bad[:5]],
                       "exact": [float(Fraction(s["spec"][i], S)) for i in bad[:5]]})
        mb = [i for i in range(n) if ds[i] != n and impl_bits[i] != m["model"][i]]
        if mb:
            fs.append({"kind": "model", "what": f"upstream_area (geographic): implementation != binary64 Lean model at {mb[:5]}"})
        return fs

    ctx.add(desc, [("accuflux_f64", {"ds": ds, "seq": seq, "bits": bits, "nodata": f64_sbits(-9999.0)}),
                   ("upstream_area", {"ds": ds, "seq": seq, "area": area_i, "nodata": -9999 * S})], judge, nontrivial=nontriv)


def case_uparea_vector(ctx, ds, order, nontriv):
    rng = ctx.rng
    n = len(ds)
    mode = rng.choice(["default", "int", "dyadic"])
    if mode == "default":
        flw = mk_vector(ds)
        vals, scale = [1] * n, 1
    elif mode == "int":
        vals, scale = [rng.randint(1, 9) for _ in range(n)], 1
        flw = mk_vector(ds, area=np.array(vals, dtype=rng.choice([np.int32, np.float64])))
    else:
        vals, scale = [rng.randint(1, 40) for _ in range(n)], 8
        flw = mk_vector(ds, area=np.array([v / 8 for v in vals], dtype=rng.choice([np.float32, np.float64])))
    if order == "walk":
        flw.order_cells("walk")
    seq = canon_idx(flw.idxs_seq, n)
    out = flw.upstream_area()
    impl = scaled(out, scale)
    ctx.count("uparea-vector:" + mode)
    desc = {"op": "Flwdir.upstream_area", "ds": ds, "order": order, "area_scaled": vals, "scale": scale}

    def judge(ans):
        a = ans[0]
        if drv_err(a):
            return drv_err(a)
        fs = hyp_failures(a)
        if impl != a["spec"]:
            fs.append({"kind": "spec", "what": "upstream area differs from the catchment sum of node areas / nodata outside",
                       "impl": impl, "spec": a["spec"]})
        if impl != a["model"]:
            fs.append({"kind": "model", "what": "Flwdir.upstream_area: implementation != Lean model", "impl": impl, "model": a["model"]})
        return fs

    ctx.add(desc, [("upstream_area", {"ds": ds, "seq": seq, "area": vals, "nodata": -9999 * scale})], judge, nontrivial=nontriv)


def case_kernel(ctx, ds, shape, seq, order, nontriv):
    """streams.upstream_area called directly (lowest level)"""
    from affine import Affine
    from pyflwdir import streams, gis_utils as gis
    rng = ctx.rng
    n = len(ds)
    nrow, ncol = shape
    nvalid = len(seq)
    idxs_ds = ds_to_np(ds, np.int32)
    seq_np = np.array(seq, dtype=np.int32)
    latlon = rng.random() < 0.35
    nodata = rng.choice([-9999.0, -1.0])
    if not latlon:
        xres, yres = rng.choice(PROJ_RES)
        factor = rng.choice([1, 1e4, 1e6, 4, 0.5])
        dt = rng.choice([np.float64, np.float32])
        q = abs(Fraction(xres) * Fraction(yres)) / Fraction(factor)
        if not is_pow2(q.denominator) or nvalid * q.numerator >= (2 ** 24 if dt == np.float32 else 2 ** 52):
            ctx.count("kernel-inexact-combination-skipped")
            return
        tr = Affine(xres, 0.0, 0.0, 0.0, yres, 0.0)
        out = streams.upstream_area(idxs_ds, seq_np, ncol, False, tr, factor, nodata, dt)
        S = q.denominator
        impl = scaled(out, S)
        ctx.count("kernel-projected")
        desc = {"op": "streams.upstream_area", "ds": ds, "shape": list(shape), "order": order, "latlon": False,
                "transform": [xres, yres], "area_factor": factor, "nodata": nodata, "dtype": np.dtype(dt).name}

        def judge(ans):
            a = ans[0]
            if drv_err(a):
                return drv_err(a)
            fs = hyp_failures(a)
            if impl != a["spec"]:
                fs.append({"kind": "spec", "what": "streams.upstream_area differs from the catchment sum / nodata outside",
                           "impl": impl, "spec": a["spec"]})
            if impl != a["model"]:
                fs.append({"kind": "model", "what": "streams.upstream_area: implementation != Lean model", "impl": impl, "model": a["model"]})
            if out.dtype != np.dtype(dt):
                fs.append({"kind": "spec", "what": f"dtype {out.dtype}"})
            return fs

        ctx.add(desc, [("upstream_area_kernel", {"ds": ds, "seq": seq, "ncol": ncol, "rowarea": [int(q * S)] * nrow,
                                                 "nodata": int(Fraction(nodata) * S)})], judge, nontrivial=nontriv)
        return
    xres, yres = rng.choice(GEO_RES)
    span = nrow * abs(yres)
    north = float(rng.randint(-75, int(75 - span))) if yres > 0 else float(rng.randint(int(-75 + span), 75))
    factor = rng.choice([1, 1e4, 1e6])
    tr = Affine(xres, 0.0, 10.0, 0.0, yres, north)
    out = streams.upstream_area(idxs_ds, seq_np, ncol, True, tr, factor, nodata, np.float64)
    rows = [gis.cellarea(north + (r + 0.5) * yres, xres, yres) / factor for r in range(nrow)]
    inseq = set(seq)
    init = [float(rows[i // ncol]) if i in inseq else nodata for i in range(n)]
    fr = [Fraction(float(x)) for x in rows]
    S = max(f.denominator for f in fr)
    impl_f = [float(x) for x in out.ravel()]
    impl_bits = [f64_bits(x) for x in impl_f]
    ctx.count("kernel-geographic")
    desc = {"op": "streams.upstream_area", "ds": ds, "shape": list(shape), "order": order, "latlon": True,
            "transform": [xres, yres, north], "area_factor": factor, "nodata": nodata}

    def judge_g(ans):
        m, s = ans
        if drv_err(m) or drv_err(s):
            return drv_err(m) or drv_err(s)
        fs = hyp_failures(s)
        bad_nd = [i for i in range(n) if ds[i] == n and impl_f[i] != nodata]
        if bad_nd:
            fs.append({"kind": "spec", "what": f"cells outside the network not reported as nodata: {bad_nd[:5]}"})
        bad = [i for i in range(n) if ds[i] != n and not gamma_ok(impl_f[i], Fraction(s["spec"][i], S), n)]
        if bad:
            fs.append({"kind": "spec", "what": f"streams.upstream_area (geographic) outside the rounding bound of the exact "
                       f"catchment sum at cells {bad[:5]}"})
        if impl_bits != m["model"]:
            fs.append({"kind": "model", "what": "streams.upstream_area (geographic): implementation != binary64 Lean model"})
        return fs

    nan_bits = f64_sbits(float("nan"))  # the kernel has no nodata guard: a guard value that never compares equal
    ctx.add(desc, [("accuflux_f64", {"ds": ds, "seq": seq, "bits": [f64_sbits(x) for x in init], "nodata": nan_bits}),
                   ("upstream_area_kernel", {"ds": ds, "seq": seq, "ncol": ncol, "rowarea": [int(f * S) for f in fr],
                                             "nodata": int(Fraction(nodata) * S)})], judge_g, nontrivial=nontriv)


def case_area_grid(ctx):
    from affine import Affine
    from pyflwdir import gis_utils as gis
    rng = ctx.rng
    shape = gen_shape(rng, max_cells=40)
    nrow, ncol = shape
    unit = rng.choice(AREA_UNITS)
    latlon = rng.random() < 0.4
    if latlon:
        xres, yres = rng.choice(GEO_RES)
        span = nrow * abs(yres)
        north = float(rng.randint(-75, int(75 - span))) if yres > 0 else float(rng.randint(int(-75 + span), 75))
    else:
        xres, yres = rng.choice(PROJ_RES)
        north = 0.0
    tr = Affine(xres, 0.0, 0.0, 0.0, yres, north)
    out = gis.area_grid(tr, shape, latlon, unit)
    ctx.count("area_grid:" + ("geographic" if latlon else "projected"))
    desc = {"op": "area_grid", "shape": list(shape), "transform": [xres, yres, north], "latlon": latlon, "unit": unit}
    if unit == "cell":
        rows, impl = [1] * nrow, scaled(out, 1)
        dtype_ok = out.dtype == np.int32
    elif latlon:
        lats = np.array([north + (r + 0.5) * yres for r in range(nrow)], dtype=np.float64)
        r64 = gis.cellarea(lats, xres, yres) * np.float32(1.0) / SPEC_FACTORS[unit]
        rows, impl = [f64_bits(x) for x in r64], [f64_bits(x) for x in out.ravel()]
        dtype_ok = out.dtype == np.float64
    else:
        q = abs(Fraction(xres) * Fraction(yres)) / Fraction(SPEC_FACTORS[unit])
        if not exact_f32_area(q, 1):
            ctx.count("area_grid-inexact-combination-skipped")
            return
        S = q.denominator
        rows, impl = [int(q * S)] * nrow, scaled(out, S)
        dtype_ok = out.dtype == np.float32
    shape_ok = out.shape == tuple(shape)

    def judge(ans):
        a = ans[0]
        if drv_err(a):
            return drv_err(a)
        fs = []
        if impl != a["model"]:
            fs.append({"kind": "spec", "what": "area_grid: cell area is not the row's area (|xres*yres|/factor, or cellarea(lat_row)/factor)",
                       "impl": impl, "model": a["model"]})
        if not (dtype_ok and shape_ok):
            fs.append({"kind": "spec", "what": f"area_grid dtype/shape {out.dtype} {out.shape}"})
        return fs

    ctx.add(desc, [("area_grid", {"nrow": nrow, "ncol": ncol, "rowarea": rows})], judge, nontrivial=False)


def case_errors(ctx, flw, ds, shape):
    rng = ctx.rng
    n = len(ds)
    which = rng.choice(["direction", "size", "unit"] if shape is not None else ["direction", "size"])
    data = np.zeros(n, dtype=np.int32)
    try:
        if which == "direction":
            flw.accuflux(data, direction=rng.choice(["sideways", "UP", ""]))
        elif which == "size":
            flw.accuflux(np.zeros(n + 1, dtype=np.int32))
        else:
            flw.upstream_area(unit=rng.choice(["acre", "m", "cells"]))
        got = "returns"
    except Exception as e:
        got = exc_class(e)
    ctx.evaluations += 1
    ctx.count("error:" + which)
    if got != "ValueError":
        ctx.fail({"op": "errors", "ds": ds, "which": which}, "spec", f"invalid {which} must raise ValueError, got {got}")


# ------------------------------------------------------------------------------------------------
IDX_DTYPES = [np.int32, np.int32, np.int64, np.uint32]

# ------------------------------------------------------------------------------------------------
# large networks (tens of thousands of steps along one flow path / hundreds of thousands of cells)
# ------------------------------------------------------------------------------------------------
# Quantities the implementation derives from the network - ranks, rank * size, positions in the cell order,
# accumulated counts - leave int16 / int32 only on networks far larger than the ones the Lean driver is asked about.
# These cases are judged by the harness' own oracle (ranks by pointer jumping until nothing changes, then one
# sweep over python integers in the oracle's own order), as `spec` failures. The interpreted core.rank is quadratic in
# the number of steps it walks from the lowest-numbered cell not ranked yet, so the generators keep the pits at low
# cell numbers (top corners / top row / left column, chain labels increasing upstream block by block).
BIG_BUILDS = ["sort", "sort", "nextxy", "nextxy", "walk"]


def _mv_of(dtype):
    return -1 if np.issubdtype(dtype, np.signedinteger) else int(np.iinfo(dtype).max)


def big_snake(rs, lo, hi):
    """snake through the whole raster, n in [lo, hi]; the last few percent of the path may lie outside the network and
    the river may be cut by 1-2 nodata cells near its upper end (the cell upstream of a gap is a pit)"""
    from common import snake_path
    n0 = rs.randint(lo, hi)
    nrow = rs.randint(max(2, int(n0 ** 0.5 * 0.6)), max(3, int(n0 ** 0.5 * 1.6)))
    ncol = max(2, n0 // nrow)
    by, corner = rs.choice([("row", "tl"), ("row", "tr"), ("col", "tl"), ("col", "bl")])
    path = snake_path(nrow, ncol, by, corner)
    n = nrow * ncol
    L = n if rs.random() < 0.5 else rs.randint(int(0.93 * n), n)
    ds = np.full(n, n, dtype=np.int64)
    ds[path[0]] = path[0]
    ds[path[1:L]] = path[:L - 1]
    cuts = sorted(rs.sample(range(int(0.9 * L), L - 1), rs.choice([0, 0, 1, 2]))) if L > 40 else []
    for q in cuts:
        ds[path[q]] = n
        ds[path[q + 1]] = path[q + 1]
    return ds, (nrow, ncol), "large-snake", {"nrow": nrow, "ncol": ncol, "by": by, "corner": corner, "L": L, "cuts": cuts}


def big_comb(rs, lo, hi):
    """'comb': parallel reaches of random length (the cells beyond a reach are nodata) draining into a trunk along the
    left column (reaches = rows, trunk flows north) or the top row (reaches = columns, trunk flows west); a few trunk
    cells are pits of their own, so there are several basins"""
    n0 = rs.randint(lo, hi)
    nrow = rs.randint(max(2, int(n0 ** 0.5 * 0.7)), max(3, int(n0 ** 0.5 * 1.4)))
    ncol = max(2, n0 // nrow)
    n = nrow * ncol
    idx = np.arange(n, dtype=np.int64).reshape(nrow, ncol)
    nprs = np.random.default_rng(rs.getrandbits(32))
    rows = rs.random() < 0.5
    if rows:
        ds = idx - 1
        ds[:, 0] = idx[:, 0] - ncol
        ln = nprs.integers(max(1, ncol // 2), ncol + 1, size=nrow)
        ds[np.arange(ncol)[None, :] >= ln[:, None]] = n
        trunk = idx[:, 0]
    else:
        ds = idx - ncol
        ds[0, :] = idx[0, :] - 1
        ln = nprs.integers(max(1, nrow // 2), nrow + 1, size=ncol)
        ds[np.arange(nrow)[:, None] >= ln[None, :]] = n
        trunk = idx[0, :]
    ds[0, 0] = 0
    pits = [int(trunk[rs.randrange(trunk.size)]) for _ in range(rs.choice([0, 1, 3]))]
    ds = ds.ravel()
    for q in pits:
        ds[q] = q
    return ds, (nrow, ncol), "large-comb", {"nrow": nrow, "ncol": ncol, "reaches": "rows" if rows else "columns", "extra_pits": pits}


def big_chain(rs, lo, hi):
    """vector network: one chain of n nodes whose labels increase upstream block by block and are shuffled inside the
    blocks (block size 1 / 16 / 64); 0-2 nodes near the upper end are missing (the node upstream of a gap is a pit)"""
    n = rs.randint(lo, hi)
    B = rs.choice([1, 16, 64])
    nprs = np.random.default_rng(rs.getrandbits(32))
    path = np.arange(n, dtype=np.int64)
    if B > 1:
        for a in range(0, n, B):
            path[a:a + B] = nprs.permutation(path[a:a + B])
    ds = np.full(n, n, dtype=np.int64)
    ds[path[0]] = path[0]
    ds[path[1:]] = path[:-1]
    cuts = sorted(rs.sample(range(int(0.9 * n), n - 1), rs.choice([0, 1, 2]))) if n > 40 else []
    for q in cuts:
        ds[path[q]] = n
        ds[path[q + 1]] = path[q + 1]
    return ds, None, "large-chain", {"n": n, "block": B, "cuts": cuts}


def np_steps_to_pit(ds):
    """harness' own number of steps to the pit per cell (int64 array; cells outside the network: 0) of a loop-free
    network given as int64 array with n = missing: pointer jumping, repeated until no pointer changes"""
    n = ds.size
    me = np.arange(n, dtype=np.int64)
    ptr = np.where(ds == n, me, ds)
    dist = (ptr != me).astype(np.int64)
    for _ in range(70):
        nxt = ptr[ptr]
        if np.array_equal(nxt, ptr):
            return dist
        dist = dist + dist[ptr]
        ptr = nxt
    raise RuntimeError("harness: large network is not loop-free")


def big_oracle(ds, vals, direction):
    """accumulation of integer values (python ints: no wrap-around) over a loop-free network, in the oracle's own order"""
    n = ds.size
    steps = np_steps_to_pit(ds)
    valid = np.flatnonzero(ds != n)
    order = valid[np.argsort(steps[valid], kind="stable")].tolist()     # downstream first
    d = ds.tolist()
    acc = list(vals)
    if direction == "up":
        for i in reversed(order):
            j = d[i]
            if j != i:
                acc[j] += acc[i]
    else:
        for i in order:
            j = d[i]
            if j != i:
                acc[i] += acc[j]
    return acc, int(steps.max()) if n else 0


def big_case(ctx, subseed, size_class):
    import random as _random
    from pyflwdir.pyflwdir import FlwdirRaster
    from pyflwdir.flwdir import Flwdir
    rs = _random.Random(subseed)
    if size_class == "long-path":          # (steps along the longest path) * (number of cells) >= 2**31
        gen = rs.choice([big_snake, big_snake, big_chain])
        ds, shape, fam, params = gen(rs, 52000, 80000)
    elif size_class == "many-cells":       # several hundred thousand cells, short paths, cells outside the network
        ds, shape, fam, params = big_comb(rs, 215000, 420000)
    else:                                  # anything in between, sizes log-uniform
        gen = rs.choice([big_snake, big_comb, big_chain])
        hi = 2 ** rs.uniform(11, 16.2)
        ds, shape, fam, params = gen(rs, int(hi * 0.8), int(hi))
    n = int(ds.size)
    idt = rs.choice(IDX_DTYPES)
    a = np.where(ds == n, _mv_of(idt), ds).astype(np.uint64 if idt == np.uint32 else np.int64).astype(idt)
    cache = rs.random() < 0.8
    builds = [b for b in BIG_BUILDS if not (size_class == "long-path" and b == "walk") and not (shape is None and b == "nextxy")]
    build = rs.choice(builds)
    if shape is None:
        flw = Flwdir(idxs_ds=a, cache=cache)
        if build == "walk":
            flw.order_cells("walk")         # (the default of a vector network is the rank order)
    else:
        flw = FlwdirRaster(idxs_ds=a, shape=shape, ftype="nextxy" if build == "nextxy" else "d8", cache=cache)
        if build == "sort":
            flw.order_cells("sort")         # (nextxy objects use the rank order by default, d8 objects the walk order)
    ctx.count("family:" + fam)
    ctx.count("feature:large-network:" + size_class)
    ctx.count("feature:large-network:order=" + build)
    # field: ones / small non-negative integers / dyadic k/8; cells outside the network hold arbitrary values
    nprs = np.random.default_rng(rs.getrandbits(32))
    kind = rs.choice(["ones", "ints", "dyadic"])
    nodata = rs.choice([-9999, -1])
    inside = ds != n
    if kind == "dyadic":
        dt = rs.choice(["float32", "float64"]) if 40 * n < 2 ** 24 else "float64"
        scale = 8
        ints_ = nprs.integers(0, 41, size=n)
    else:
        dt = rs.choice(["int32", "int64", "float64"] + (["float32"] if 6 * n < 2 ** 24 else []))
        scale = 1
        ints_ = np.ones(n, dtype=np.int64) if kind == "ones" else nprs.integers(0, 7, size=n)
    ints_ = np.where(inside, ints_, 7 * scale).astype(np.int64)
    arr = (ints_ / scale).astype(dt) if scale > 1 else ints_.astype(dt)
    assert np.array_equal(arr.astype(np.float64) * scale, ints_.astype(np.float64)), "harness: field not exact"
    direction = rs.choice(["up", "up", "down"])
    desc = {"op": "large:accuflux", "subseed": subseed, "size_class": size_class, "family": fam, "gen": params,
            "cells": n, "order": build, "idx_dtype": np.dtype(idt).name, "cache": cache,
            "field": kind, "dtype": dt, "nodata": nodata, "direction": direction}
    want, longest = big_oracle(ds, ints_.tolist(), direction)
    desc["longest_path_steps"] = longest
    ctx.count("feature:large-network:steps*cells " + (">= 2**31" if longest * n >= 2 ** 31 else "< 2**31"))
    ctx.count("feature:large-network:cells " + (">= 2**31 / 9999" if n * 9999 >= 2 ** 31 and not inside.all() else "below"))
    want_np = np.array(want, dtype=np.int64)
    valid = np.flatnonzero(inside)

    def first_bad(mask):
        return [int(i) for i in np.flatnonzero(mask)[:5]]

    # (1) the cell order the sweeps use
    seq = np.asarray(flw.idxs_seq).astype(np.int64)
    ctx.evaluations += 1
    pos = np.full(n + 1, -1, dtype=np.int64)
    ok_range = seq.size == valid.size and seq.size > 0 and seq.min() >= 0 and seq.max() < n
    if ok_range:
        pos[seq] = np.arange(seq.size)
    if not ok_range or (pos[valid] < 0).any():
        ctx.fail(dict(desc, op="large:cell-order"), "spec", "cell order does not consist of exactly the valid cells of a loop-free "
                 f"network ({seq.size} entries for {valid.size} valid cells; entries outside the network: "
                 f"{[int(seq[i]) for i in first_bad(~inside[np.clip(seq, 0, n - 1)])]})")
    elif (pos[ds[valid]] > pos[valid]).any():
        ctx.fail(dict(desc, op="large:cell-order"), "spec", "cell order handed to the sweep is not downstream-first (C03 hypothesis) "
                 f"at cells {[int(valid[i]) for i in first_bad(pos[ds[valid]] > pos[valid])]}")
    # (2) accumulation = catchment sum (up) / sum along the flow path (down); outside cells untouched; mass at the pits
    data = arr.reshape(shape) if shape is not None else arr
    out = flw.accuflux(data, nodata=nodata, direction=direction)
    ctx.evaluations += 1
    ctx.count("accuflux:" + direction)
    got = np.asarray(out).ravel().astype(np.float64) * scale
    bad = got != want_np.astype(np.float64)
    if out.shape != data.shape or out.dtype != data.dtype:
        ctx.fail(desc, "spec", f"shape/dtype not preserved: {out.shape} {out.dtype}")
    elif bad.any():
        cells = first_bad(bad)
        outside_bad = first_bad(bad & ~inside)
        what = ("accumulation differs from the sum over the upstream catchment" if direction == "up"
                else "downstream accumulation differs from the sum along the flow path")
        if outside_bad:
            what += f"; cells outside the network changed: {outside_bad}"
        ctx.fail(desc, "spec", f"{what} at cells {cells} ({int(bad.sum())} cells in all)",
                 impl_scaled=[float(got[i]) for i in cells], expected_scaled=[int(want_np[i]) for i in cells])
    if direction == "up" and out.shape == data.shape:
        pits = np.flatnonzero(ds == np.arange(n))
        ctx.evaluations += 1
        if float(got[pits].sum()) != float(ints_[valid].sum()):
            ctx.fail(dict(desc, op="large:mass"), "spec", "mass not conserved: totals at the pits != total over the valid cells",
                     at_pits_scaled=float(got[pits].sum()), total_scaled=int(ints_[valid].sum()))
    # (3) upstream area in cells: the number of cells draining through a cell; nodata outside the network
    cnt, _ = big_oracle(ds, inside.astype(np.int64).tolist(), "up")
    cnt = np.where(inside, np.array(cnt, dtype=np.int64), -9999)
    upa = np.asarray(flw.upstream_area()).ravel()
    ctx.evaluations += 1
    ctx.count("uparea-unit:cell")
    bad = upa.astype(np.float64) != cnt.astype(np.float64)
    if bad.any():
        cells = first_bad(bad)
        ctx.fail(dict(desc, op="large:upstream_area"), "spec", f"upstream area (cells) differs from the number of cells of the catchment / "
                 f"nodata outside the network at cells {cells} ({int(bad.sum())} cells in all)",
                 impl=[float(upa[i]) for i in cells], expected=[int(cnt[i]) for i in cells])


def large_networks(ctx):
    """per run: two long-path networks (always under the rank order), one many-cells network, two of intermediate size
    (any order); twice that when escalated"""
    for _ in range(1 if ctx.escalate == 1 else 2):
        for size_class in ("long-path", "many-cells", "intermediate", "long-path", "intermediate"):
            big_case(ctx, ctx.rng.getrandbits(32), size_class)



def one_network(ctx, ds, shape, fam, full=True):
    rng = ctx.rng
    n = len(ds)
    feat = net_features(ds)
    plen = max_path_len(ds)
    nontriv = feat["valid"] >= 2 and feat["confluences"] >= 1 and plen >= 3
    ctx.count("family:" + fam)
    ctx.count("max-inflow:%d" % min(feat["max_inflow"], 8))
    ctx.count("path-len>=3" if plen >= 3 else "path-len<3")
    idt = rng.choice(IDX_DTYPES)
    try:
        flw = mk_raster(ds, shape, dtype=idt) if shape is not None else mk_vector(ds, dtype=idt)
    except ValueError:
        ctx.count("ctor-rejected")
        return
    ctx.count("idx-dtype:" + np.dtype(idt).name)
    # raster default order is 'walk', vector default is 'sort': exercise both on both
    if rng.random() < 0.3:
        # an object nobody has queried yet (no cell order computed): accumulation / upstream area as the first query
        from pyflwdir.pyflwdir import FlwdirRaster
        from pyflwdir.flwdir import Flwdir
        for _k in range(2):
            new = (FlwdirRaster(idxs_ds=ds_to_np(ds, idt), shape=tuple(shape), ftype="d8", cache=rng.random() < 0.7)
                   if shape is not None else Flwdir(idxs_ds=ds_to_np(ds, idt), cache=rng.random() < 0.7))
            if _k == 0:
                case_accuflux(ctx, new, ds, shape, None, "default", nontriv, fam)
            else:
                first = [int(v) for v in np.asarray(new.upstream_area()).ravel()]
                cnt = [0] * n
                for i0 in range(n):          # brute force: every cell counts for each cell on its downstream path
                    if ds[i0] == n:
                        continue
                    j, k = i0, 0
                    cnt[j] += 1
                    while ds[j] != j and ds[j] != n and k <= n:
                        j = ds[j]
                        cnt[j] += 1
                        k += 1
                ctx.evaluations += 1
                want = [cnt[i] if ds[i] != n else -9999 for i in range(n)]
                if first != want:
                    bad = [i for i in range(n) if first[i] != want[i]][:5]
                    ctx.fail({"op": "upstream_area() as first query on a new object", "ds": ds, "shape": list(shape) if shape else None},
                             "spec", f"upstream area (cells) differs from the number of upstream cells at {bad}", impl=first, spec=want)
    order = rng.choice(["walk", "sort"])
    flw.order_cells(order)
    ctx.count("order:" + order)
    seq = canon_idx(flw.idxs_seq, n)
    for _ in range(2):
        case_accuflux(ctx, flw, ds, shape, seq, order, nontriv, fam)
    if not full:
        return
    if shape is None:
        case_uparea_vector(ctx, ds, order, nontriv)
    else:
        if rng.random() < 0.65:
            case_uparea_projected(ctx, ds, shape, order, nontriv)
        else:
            case_uparea_geographic(ctx, ds, shape, order, nontriv)
        if rng.random() < 0.4:
            case_kernel(ctx, ds, shape, seq, order, nontriv)
    if rng.random() < 0.25:
        case_area_grid(ctx)
    if rng.random() < 0.1:
        case_errors(ctx, flw, ds, shape)


def sparse_network(ctx):
    """point data on a network of 50..120 cells (see gen_sparse_net / gen_sparse_field)"""
    rng = ctx.rng
    ds, shape, fam = gen_sparse_net(rng)
    n = len(ds)
    feat = net_features(ds)
    nontriv = feat["valid"] >= 2 and feat["confluences"] >= 1 and max_path_len(ds) >= 3
    ctx.count("family:" + fam)
    ctx.count("sparse-net:last-cell-" + ("inside" if ds[n - 1] != n else "outside"))
    idt = rng.choice([np.int32, np.int64])
    try:
        flw = mk_raster(ds, shape, dtype=idt) if shape is not None else mk_vector(ds, dtype=idt)
    except ValueError:
        ctx.count("ctor-rejected")
        return
    order = rng.choice(["walk", "sort"])
    flw.order_cells(order)
    seq = canon_idx(flw.idxs_seq, n)
    for _ in range(2):
        case_accuflux(ctx, flw, ds, shape, seq, order, nontriv, fam, field=gen_sparse_field(rng, ds))


def all_forests(n):
    """every loop-free functional graph on n nodes with values in 0..n (n = missing) whose valid nodes drain to
    valid nodes and that has at least one pit"""
    import itertools
    for ds in itertools.product(range(n + 1), repeat=n):
        ok = any(ds[i] == i for i in range(n)) and all(ds[i] == n or ds[ds[i]] != n for i in range(n))
        for i in range(n):
            if not ok or ds[i] == n:
                continue
            j, k = i, 0
            while ds[j] != j and k <= n:
                j, k = ds[j], k + 1
            if k > n:
                ok = False
        if ok:
            yield list(ds)


def replay_case(ctx, d):
    """re-run one recorded accuflux case (./check quick C04 --replay file)"""
    desc = d["failure"]["desc"] if "failure" in d else d
    if str(desc.get("op", "")).startswith("large:") and "subseed" in desc:
        big_case(ctx, desc["subseed"], desc["size_class"])
        return True
    if desc.get("op") != "accuflux":
        ctx.notes.append("replay: only accuflux cases are re-run individually; running the generators instead")
        return False
    ds, shape, scale = desc["ds"], desc["shape"], Fraction(desc["scale"])
    n = len(ds)
    flw = mk_raster(ds, tuple(shape)) if shape else mk_vector(ds)
    flw.order_cells(desc["order"])
    seq = canon_idx(flw.idxs_seq, n)
    vals = desc["data_scaled"]
    if desc["dtype"].startswith("float"):
        arr = np.array([float(Fraction(v) / scale) for v in vals]).astype(desc["dtype"])
    else:
        arr = np.array([int(Fraction(v) / scale) for v in vals], dtype=desc["dtype"])
    data = arr.reshape(shape) if shape else arr
    out = flw.accuflux(data, nodata=desc["nodata"], direction=desc["direction"])
    impl = scaled(out, scale)
    nodata_i = int(Fraction(desc["nodata"]) * scale)
    pyfs = py_consequences(ds, vals, nodata_i, impl, desc["direction"])

    def judge(ans):
        a = ans[0]
        if drv_err(a):
            return drv_err(a)
        fs = hyp_failures(a) + list(pyfs)
        if impl != a["spec"]:
            fs.append({"kind": "spec", "what": "accumulation differs from the declarative sum", "impl": impl, "spec": a["spec"]})
        if impl != a["model"]:
            fs.append({"kind": "model", "what": "accuflux: implementation != Lean model", "impl": impl, "model": a["model"]})
        return fs

    ctx.add(desc, [("accuflux", {"ds": ds, "seq": seq, "data": vals, "nodata": nodata_i,
                                 "dir": 0 if desc["direction"] == "up" else 1})], judge)
    return True


def run(ctx):
    rng = ctx.rng
    if getattr(ctx, "replay", None) and replay_case(ctx, ctx.replay):
        return
    ncase = (300 if ctx.tier == "quick" else 3000) * ctx.escalate
    max_cells = 56 if ctx.tier == "quick" else 400
    # exhaustive tiny universe: every loop-free network on <= 4 (quick) / <= 5 (thorough) nodes, as vector networks
    top = 4 if ctx.tier == "quick" else 5
    for n in range(2, top + 1):
        for ds in all_forests(n):
            one_network(ctx, ds, None, "exhaustive-n%d" % n, full=(n <= 3))
            if len(ctx.cases) > 300:
                ctx.flush()
    ctx.exhaustive = True
    large_networks(ctx)
    for k in range(ncase):
        ds, shape, fam = gen_net(rng, max_cells)
        one_network(ctx, ds, shape, fam)
        if k % 5 == 0:
            sparse_network(ctx)
        if len(ctx.cases) > 300:
            ctx.flush()
