"""C16 extension C16_val - capacity of the fixed-width VALUE arrays.

The kernels allocate value arrays whose dtype does not follow the index dtype: int32 ranks (`core.rank`), int32 inflow
counts (`core.upstream_count`), uint8 stream orders (`streams.strahler_order`, `streams.stream_order`), uint32 basin
ids (`basins.basins`), int32 Pfafstetter seeds (`basins.subbasins_pfafstetter`), int32 cell-count distances
(`streams.stream_distance(real_length=False)`), int8 flags (`dem.floodplains`). The Lean models compute these
values unbounded; `lean/PfVerif/Model/C16_val.lean` gives the machine reading (`store` = truncation, `load` = two's
complement, `Fits`), `lean/PfVerif/Props/C16_val.lean` proves the bound of every unbounded value and the refinement
`load (store x) = x <-> Fits x`.

This harness runs the REAL kernels (in-process, interpreter; one worker process with the JIT for the Pfafstetter
kernel, PF_C16V_JIT=0 switches it off) on vector networks near the capacity where that is feasible - chains of
thousands of nodes (rank, distance), stars with thousands of inflows (n_up), combs with classic order up to and
beyond 255 (F08 mechanism), complete binary trees (Strahler), networks with thousands of pits (basin ids) and
Pfafstetter depths 1..9 with up to dozens of pits - and sends the RAW stored values (as unsigned integers) to the
driver, which returns the unbounded model values, the `fits` verdict, the bound check and the predicted machine
content (`pred = load (store model)`).

* `spec`  = a value array of the implementation is not what the property needs although the model value fits the
            dtype (silent wrap inside a quantified domain), or a bound theorem is contradicted by a real output;
* `model` = implementation (or NumPy's cast / scalar arithmetic) != Lean machine model;
* classic order >= 256 (known open finding F08 of property C08, signature `classic-order-uint8-wrap`) and Pfafstetter
  depths >= 4 (outside C18's quantified depths 1..3) are OBSERVATIONS: the wrap prediction of the model is compared
  with the real stored values (a difference is a `model` failure), the wrap itself is counted, not reported.

Replay descriptions carry a catalogue task for props/c16.py (see c16_mach.py) and the real case under "x"."""
import json
import os
import random
import subprocess
import sys
import warnings

import numpy as np
from common import gen_forest, gen_funcgraph, ds_to_np, canon_idx, ints, topo_of, exc_class

OPS = ["core.rank", "core.upstream_count", "streams.stream_distance(real_length=False)", "streams.stream_order",
       "streams.strahler_order", "core.main_upstream", "basins.basins", "basins.subbasins_pfafstetter",
       "dem.floodplains", "NumPy casts / scalar arithmetic at int8, uint8, int16, int32, uint32"]
RULE = ("C16 extension (value arrays): chains <= 3000 nodes, random forests / functional graphs with loops <= 60 nodes "
        "(rank, distance; what-if reading at int8 / uint8 / int16 against NumPy's cast); stars <= 5000 inflows (n_up); "
        "combs with classic order 3 .. 300 around the uint8 limit and complete binary trees of depth <= 10 (orders); "
        "networks with <= 3000 pits (basin ids); Pfafstetter depth 1..9 x <= 40 pits, seeds at the int32 limit for "
        "every depth (depths 1..3 are the quantified domain of C18, deeper = observation); integers at the limits of "
        "each value dtype against NumPy. non-trivial = value within 2 of a dtype limit or >= 100 cells / pits; "
        "distinct = SHA-1 of the case")
SIG_WRAP = "classic-order-uint8-wrap"     # known finding F08 (property C08): never reported from here, see docstring

VT = {"int8": (np.int8, 8, 1), "uint8": (np.uint8, 8, 0), "int16": (np.int16, 16, 1), "int32": (np.int32, 32, 1),
      "uint32": (np.uint32, 32, 0)}
UNS = {1: np.uint8, 2: np.uint16, 4: np.uint32, 8: np.uint64}
_COMPAT = []


def classify(f):
    if f.get("sig") == SIG_WRAP:
        return SIG_WRAP
    return None


def compat(x):
    if not _COMPAT:
        import catalogue
        rng = random.Random(20260930)
        w = catalogue.gen_world(rng, "quick", cls="vector")
        _COMPAT.append((w, catalogue.OPS["rank"]["gen"](rng, w)))
    w, args = _COMPAT[0]
    return {"op": "rank", "args": args, "world": w, "ext": "c16_val", "x": x}


def raw(a):
    a = np.ascontiguousarray(a)
    return [int(v) for v in a.view(UNS[a.dtype.itemsize]).ravel().tolist()]


def call(fn):
    try:
        with warnings.catch_warnings():
            warnings.simplefilter("ignore")
            with np.errstate(over="ignore"):
                return "ok", fn()
    except Exception as e:  # noqa: BLE001 - an exception of the implementation is an observation
        return "exc", exc_class(e) + ":" + str(e)[:100]


def drv_err(ans):
    for a in ans:
        if "__err__" in a:
            return [{"kind": "model", "what": "driver error " + a["__err__"]}]
    return None


def wrap_py(x, w, sg):
    x %= 2 ** w
    return x - 2 ** w if sg and x >= 2 ** (w - 1) else x


MV = np.int32(-1)


# ------------------------------------------------------------------------------------------------
# A. the primitive against NumPy
# ------------------------------------------------------------------------------------------------
def case_store(ctx, x):
    dtype, w, sg = VT[x["dtype"]]
    vals = x["vals"]
    big = np.array(vals, dtype=np.int64)
    cast = ints(big.astype(dtype))                                  # C cast
    arr = np.zeros(len(vals), dtype=dtype)
    arr[:] = big                                                     # array store (unsafe cast); a SCALAR store of an
    # out-of-range value is refused by NumPy >= 2 (OverflowError) - under the JIT it is this truncation
    inc = []
    with warnings.catch_warnings():
        warnings.simplefilter("ignore")
        for v in big.astype(dtype):
            inc.append(int(v + 1) if type(v + 1) is dtype else None)  # NumPy >= 2: Python int operand is weak
    info = np.iinfo(dtype)

    def judge(ans):
        e = drv_err(ans)
        if e:
            return e
        L, fs = ans[0], []
        if L["lo"] != [int(info.min)] or L["hi"] != [int(info.max)]:
            fs.append({"kind": "model", "what": f"{x['dtype']}: range {L['lo']}..{L['hi']} != np.iinfo"})
        if L["loaded"] != cast or L["loaded"] != ints(arr) or L["wrap"] != cast:
            fs.append({"kind": "model", "what": f"{x['dtype']}: Lean load(store v) != NumPy cast / element store", "lean": L["loaded"], "numpy": cast})
        if L["fits"] != [int(info.min <= v <= info.max) for v in vals] or [int(a == b) for a, b in zip(L["loaded"], vals)] != L["fits"]:
            fs.append({"kind": "model", "what": f"{x['dtype']}: fits verdict differs from the range test / load-store fixpoint (load_store_iff)"})
        if L["inc"] != inc or L["raw"] != raw(big.astype(dtype)):
            fs.append({"kind": "model", "what": f"{x['dtype']}: machine increment / raw bit pattern != NumPy", "lean": L["inc"], "numpy": inc})
        return fs

    ctx.add(compat({"kind": "store", **x}), [("c16v_store", {"w": w, "signed": sg, "vals": vals})], judge, nontrivial=True,
            key={"kind": "store", **x})


def gen_store(ctx, rng):
    name = rng.choice(list(VT))
    _, w, sg = VT[name]
    lim = [0, 1, -1, 2 ** (w - 1), 2 ** w, -2 ** (w - 1), 2 ** 31, 2 ** 32, -9999, -9, 255, 256, 111111111 + 3 * 10 ** 9]
    vals = [rng.choice(lim) + rng.randint(-2, 2) for _ in range(10)] + [rng.randint(-2 ** 40, 2 ** 40) for _ in range(3)]
    ctx.count("v:store:" + name)
    case_store(ctx, {"dtype": name, "vals": vals})


# ------------------------------------------------------------------------------------------------
# B. rank / distance
# ------------------------------------------------------------------------------------------------
def case_rank(ctx, x, nontrivial=True):
    from pyflwdir import core, streams
    ds, n = x["ds"], len(x["ds"])
    ds_np = ds_to_np(ds, np.int32)
    st, out = call(lambda: core.rank(ds_np, mv=MV))
    if st != "ok":
        ctx.fail(compat({"kind": "rank", **x}), "spec", "core.rank raised " + str(out))
        return
    ranks, cnt = out
    seq = [i for i in np.argsort(ranks, kind="stable").tolist() if ranks[i] >= 0]
    loopfree = all(int(r) != -1 for r in ranks)
    dist = None
    if loopfree:
        st2, d = call(lambda: streams.stream_distance(ds_np, np.array(seq, dtype=np.int32), 1, mask=None, real_length=False))
        dist = d if st2 == "ok" else "exc:" + str(d)
    reqs = [("c16v_rank", {"w": 32, "signed": 1, "ds": ds, "raw": raw(ranks)})]
    what_if = []
    for name in ("int8", "uint8", "int16"):
        dt, w, sg = VT[name]
        what_if.append((name, ints(ranks.astype(dt))))
        reqs.append(("c16v_rank", {"w": w, "signed": sg, "ds": ds, "raw": raw(ranks.astype(dt))}))

    def judge(ans):
        e = drv_err(ans)
        if e:
            return e
        L, fs = ans[0], []
        if L["model.ok"] != [1]:
            return [{"kind": "model", "what": "rank model ran out of fuel"}]
        impl = ints(ranks)
        if ranks.dtype != np.int32:
            fs.append({"kind": "model", "what": f"core.rank returns {ranks.dtype}, the model reads int32"})
        if L["bound_ok"] != [1]:
            fs.append({"kind": "model", "what": "model ranks outside [-9999, n-1] or count > n (theorem rank_bounds contradicted)"})
        if L["fits"] != [int(n <= 2 ** 31)] and L["fits"] != [1]:
            fs.append({"kind": "model", "what": "fits verdict of the int32 rank array"})
        if L["impl.loaded"] != impl:
            fs.append({"kind": "model", "what": "Lean load of the raw int32 values != NumPy's reading"})
        if impl != L["pred"]:
            kind = "spec" if (L["fits"] == [1] and L["impl.cert"] != [1]) else "model"
            fs.append({"kind": kind, "what": "int32 rank array of core.rank != stored model ranks (fits: %s, certificate on the stored values: %s)" % (L["fits"], L["impl.cert"]),
                       "first": next(([i, a, b] for i, (a, b) in enumerate(zip(impl, L["pred"])) if a != b), None)})
        if L["fits"] == [1] and L["pred"] != L["model.rank"]:
            fs.append({"kind": "model", "what": "pred != model although every rank fits (storeArr_exact contradicted)"})
        if [int(cnt)] != L["model.n"]:
            fs.append({"kind": "model", "what": f"node count {int(cnt)} != model {L['model.n']}"})
        if L["counter"] != L["max"] or L["dist.counter"] != L["max"]:
            fs.append({"kind": "model", "what": f"int32 machine counter {L['counter']} / {L['dist.counter']} != largest rank {L['max']}"})
        if dist is not None:
            if isinstance(dist, str):
                fs.append({"kind": "spec", "what": "stream_distance(real_length=False) raised " + dist})
            else:
                want = [r if r >= 0 else -9999 for r in L["model.rank"]]
                if dist.dtype != np.int32 or ints(dist) != want:
                    fs.append({"kind": "spec" if L["fits"] == [1] else "model",
                               "what": f"stream_distance(real_length=False) ({dist.dtype}) != number of steps to the pit although the counts fit int32"})
        for (name, cast), A in zip(what_if, ans[1:]):
            _, w, sg = VT[name]
            if A["pred"] != cast:
                fs.append({"kind": "model", "what": f"what-if {name}: Lean load(store rank) != ranks.astype({name})"})
            if A["fits"] != [int(cast == impl)]:
                fs.append({"kind": "model", "what": f"what-if {name}: fits verdict {A['fits']} but astype round trip exact = {cast == impl}"})
            if A["counter"] != [wrap_py(L["max"][0], w, sg)]:
                fs.append({"kind": "model", "what": f"what-if {name}: machine counter {A['counter']} != wrapped largest rank"})
        return fs

    ctx.add(compat({"kind": "rank", **x}), reqs, judge, nontrivial=nontrivial, key={"kind": "rank", **x})


def gen_rank(ctx, rng, k):
    if k % 3 == 0:
        n = rng.choice([120, 127, 128, 129, 255, 256, 257, 300, 1000, 3000]) if ctx.tier == "quick" else rng.choice([255, 256, 1000, 3000, 5000, 8000])
        if k > 12 and ctx.tier == "quick":
            n = rng.randint(100, 400)
        perm = list(range(n))
        if rng.random() < 0.5:
            rng.shuffle(perm)
        ds = [0] * n
        for j in range(n):
            ds[perm[j]] = perm[max(j - 1, 0)]
        ctx.count("v:rank:chain")
    elif k % 3 == 1:
        ds = gen_forest(rng, rng.randint(3, 60), p_nodata=rng.choice([0.0, 0.3]))
        ctx.count("v:rank:forest")
    else:
        ds = gen_funcgraph(rng, rng.randint(3, 40), p_nodata=rng.choice([0.0, 0.2]))
        ctx.count("v:rank:funcgraph")
    case_rank(ctx, {"ds": ds}, nontrivial=len(ds) >= 100 or k % 3 != 0)


# ------------------------------------------------------------------------------------------------
# C. upstream count
# ------------------------------------------------------------------------------------------------
def case_nup(ctx, x):
    from pyflwdir import core
    ds, n = x["ds"], len(x["ds"])
    ds_np = ds_to_np(ds, np.int32)
    mask = None if x["mask"] is None else np.array(x["mask"], dtype=bool)
    st, out = call(lambda: core.upstream_count(ds_np, mv=MV, mask=mask))
    if st != "ok":
        ctx.fail(compat({"kind": "nup", **x}), "spec", "core.upstream_count raised " + str(out))
        return
    reqs = [("c16v_nup", {"w": 32, "signed": 1, "ds": ds, "mask": None if mask is None else [int(b) for b in x["mask"]]})]
    for name in ("int8", "uint8"):
        _, w, sg = VT[name]
        reqs.append(("c16v_nup", {"w": w, "signed": sg, "ds": ds, "mask": None if mask is None else [int(b) for b in x["mask"]]}))

    def judge(ans):
        e = drv_err(ans)
        if e:
            return e
        L, fs = ans[0], []
        if L["bound_ok"] != [1] or L["fits"] != [1]:
            fs.append({"kind": "model", "what": "model n_up outside [-9, n] / not int32 (theorem nup_bounds contradicted)"})
        if out.dtype != np.int32 or ints(out) != L["pred"] or L["pred"] != L["model.nup"]:
            wrapped = any(v < -9 or v > n for v in ints(out))
            fs.append({"kind": "spec" if wrapped else "model",
                       "what": f"upstream_count ({out.dtype}) != stored model counts" + (" - a stored count lies outside [-9, n] although every count fits int32 (wrap-around)" if wrapped else "")})
        for name, A in zip(("int8", "uint8"), ans[1:]):
            cast = ints(out.astype(VT[name][0]))
            if A["pred"] != cast or A["fits"] != [int(cast == ints(out))]:
                fs.append({"kind": "model", "what": f"what-if {name}: Lean load(store n_up) / fits != astype round trip"})
        return fs

    ctx.add(compat({"kind": "nup", **x}), reqs, judge, nontrivial=True, key={"kind": "nup", **x})


def gen_nup(ctx, rng, k):
    if k % 2 == 0:
        m = rng.choice([126, 127, 128, 129, 254, 255, 256, 257, 1000, 5000])
        n = m + 1 + rng.randint(0, 3)
        c = rng.randrange(n)
        ds = [c] * n
        for j in rng.sample([i for i in range(n) if i != c], n - 1 - m):
            ds[j] = n
        ctx.count("v:nup:star")
    else:
        ds = gen_forest(rng, rng.randint(3, 60), p_nodata=rng.choice([0.0, 0.3]), fanin_bias=0.7)
        ctx.count("v:nup:forest")
    mask = None if rng.random() < 0.6 else [rng.random() < 0.8 for _ in ds]
    case_nup(ctx, {"ds": ds, "mask": mask})


# ------------------------------------------------------------------------------------------------
# D. stream orders
# ------------------------------------------------------------------------------------------------
def own_main_upstream(ds, upa):
    n = len(ds)
    um, best = [n] * n, [0.0] * n
    for i, d in enumerate(ds):
        if d == i or d == n:
            continue
        if upa[i] > best[d]:
            um[d], best[d] = i, upa[i]
    return um


def case_order(ctx, x, nontrivial=True):
    from pyflwdir import core, streams
    ds, n = x["ds"], len(x["ds"])
    ds_np = ds_to_np(ds, np.int32)
    seq = topo_of(ds)
    seq_np = np.array(seq, dtype=np.int32)
    upa = np.array(x["upa"], dtype=np.float64)
    um = own_main_upstream(ds, x["upa"])
    st0, um_impl = call(lambda: core.main_upstream(ds_np, upa, mv=MV))
    um_np = ds_to_np(um, np.int32)
    st1, cl = call(lambda: streams.stream_order(ds_np, seq_np, um_np, mask=None, mv=MV))
    st2, sa = call(lambda: streams.strahler_order(ds_np, seq_np, mask=None))
    if "exc" in (st0, st1, st2):
        ctx.fail(compat({"kind": "order", **x}), "spec", f"stream order kernels raised: {um_impl if st0 == 'exc' else ''} {cl if st1 == 'exc' else ''} {sa if st2 == 'exc' else ''}")
        return
    req = ("c16v_order", {"ds": ds, "seq": seq, "usmain": um, "w": 8})

    def judge(ans):
        e = drv_err(ans)
        if e:
            return e
        L, fs = ans[0], []
        if L["topo"] != [1]:
            return [{"kind": "model", "what": "harness order is not downstream-first"}]
        if canon_idx(um_impl, n) != um:
            fs.append({"kind": "model", "what": "core.main_upstream != harness' own main upstream cells"})
        if L["classic.bound_ok"] != [1] or L["strahler.bound_ok"] != [1] or L["strahler.fits"] != [1]:
            fs.append({"kind": "model", "what": "bound theorems contradicted (classic <= n, 2^(strahler-1) <= n, strahler fits uint8): %s %s %s" % (L["classic.bound_ok"], L["strahler.bound_ok"], L["strahler.fits"])})
        if L["classic.w"] != L["classic.pred"]:
            fs.append({"kind": "model", "what": "uint8 loop model (classicOrderW 8) != load(store unbounded order): stepwise and final wrap differ"})
        if cl.dtype != np.uint8 or sa.dtype != np.uint8:
            fs.append({"kind": "model", "what": f"order dtypes {cl.dtype}, {sa.dtype}: the model reads uint8"})
        if ints(cl) != L["classic.w"]:
            fs.append({"kind": "model", "what": "streams.stream_order (raw uint8) != uint8 loop model", "first": next(([i, a, b] for i, (a, b) in enumerate(zip(ints(cl), L["classic.w"])) if a != b), None)})
        elif L["classic.fits"] == [1]:
            if ints(cl) != L["classic"]:
                fs.append({"kind": "spec", "what": "classic order fits uint8 but the stored array differs from the unbounded orders"})
        else:
            ctx.count("obs:F08-mechanism:classic order %d > 255 stored modulo 256 exactly as the model predicts (known finding, not reported)" % L["classic.max"][0])
        if ints(sa) != L["strahler.pred"] or L["strahler.pred"] != L["strahler"]:
            fs.append({"kind": "spec" if L["strahler.fits"] == [1] else "model", "what": "streams.strahler_order (raw uint8) != model orders although they fit uint8"})
        return fs

    ctx.add(compat({"kind": "order", **x}), [req], judge, nontrivial=nontrivial, key={"kind": "order", **x})


def gen_order(ctx, rng, k):
    if k % 3 == 0:
        K = [3, 100, 254, 255, 256, 257, 300, 600][(k // 3) % 8] if ctx.tier == "quick" else rng.choice([254, 255, 256, 511, 512, 513, 1000])
        ds = [max(j - 1, 0) for j in range(K + 1)] + list(range(K))
        # leaves carry the larger upstream area at every spine cell (exact small integers instead of F08's powers of two:
        # the kernel only compares the areas at one confluence)
        upa = [1.0] * (K + 1) + [2.0] * K
        ctx.count("v:order:comb")
        case_order(ctx, {"ds": ds, "upa": upa, "K": K})
    elif k % 3 == 1:
        d = rng.randint(2, 10 if ctx.tier == "quick" else 13)
        n = 2 ** d - 1
        ds = [max((j - 1) // 2, 0) for j in range(n)]
        cnt = [1] * n
        for j in range(n - 1, 0, -1):
            cnt[ds[j]] += cnt[j]
        ctx.count("v:order:binary-tree")
        case_order(ctx, {"ds": ds, "upa": [float(c) for c in cnt]})
    else:
        ds = gen_forest(rng, rng.randint(3, 60), p_nodata=rng.choice([0.0, 0.2]), fanin_bias=rng.choice([0.0, 0.5]))
        loc = list(range(1, len(ds) + 1))
        rng.shuffle(loc)
        ctx.count("v:order:forest")
        case_order(ctx, {"ds": ds, "upa": [float(v) for v in loc]})


# ------------------------------------------------------------------------------------------------
# E. Pfafstetter
# ------------------------------------------------------------------------------------------------
def case_pfaf_seed(ctx, x):
    depth, pits = x["depth"], x["pits"]
    base = sum(10 ** d for d in range(depth)) if depth > 0 else 1
    seeds = [base + (i + 1) * 10 ** depth for i in pits]
    cast = ints(np.array(seeds, dtype=np.int64).astype(np.int32)) if max(seeds) < 2 ** 63 else [wrap_py(s, 32, 1) for s in seeds]

    def judge(ans):
        e = drv_err(ans)
        if e:
            return e
        L, fs = ans[0], []
        if L["base"] != [base] or L["seed"] != seeds:
            fs.append({"kind": "model", "what": f"pfafSeed: Lean {L['seed'][:3]} != pfaf0 + (i+1)*10**depth {seeds[:3]}"})
        if L["fits"] != [int(s <= 2 ** 31 - 1) for s in seeds] or L["stored"] != cast:
            fs.append({"kind": "model", "what": "pfafSeed: fits / stored value != NumPy int32 cast"})
        if L["code"] != [c % 10 ** depth for c in cast]:
            fs.append({"kind": "model", "what": "pfafSeed: code of the stored value"})
        for i, s, f in zip(pits, seeds, L["fits"]):
            if f == 0:
                ctx.count("v:pfaf:seed beyond int32 (the branch array is int64 since fix 21ba047; int32 arithmetic checked against NumPy's cast only)")
        return fs

    ctx.add(compat({"kind": "pfaf_seed", **x}), [("c16v_pfaf_seed", {"w": 32, "signed": 1, "depth": depth, "pits": pits})], judge,
            nontrivial=True, key={"kind": "pfaf_seed", **x})


def pfaf_net(rng, npits, chain_only):
    """npits pits; each with a chain (no confluence) or a small random tree"""
    ds = list(range(npits))
    for p in range(npits):
        members = [p]
        for _ in range(rng.randint(0, 3 if chain_only else 6)):
            v = len(ds)
            ds.append(members[-1] if chain_only else rng.choice(members))
            members.append(v)
    return ds


def run_pfaf_kernel(ds, depth):
    from pyflwdir import basins, core, streams
    n = len(ds)
    ds_np = ds_to_np(ds, np.int32)
    seq = np.array(topo_of(ds), dtype=np.int32)
    pits = np.array([i for i in range(n) if ds[i] == i], dtype=np.int32)
    upa = streams.accuflux(ds_np, seq, np.ones(n, dtype=np.float64), -9999.0)
    um = core.main_upstream(ds_np, upa, mv=MV)
    st, out = call(lambda: basins.subbasins_pfafstetter(pits, ds_np, seq, um, upa, mask=None, depth=depth, mv=MV))
    return st, out, ints(seq), ints(pits), canon_idx(um, n), [int(v) for v in upa]


# width of `pfaf_branch` in the code: int32 until fix 21ba047 (finding F18b: the seeds pfaf0 + (i+1)*10**depth wrapped from
# 2**31 / 10**depth pits on - silently under the JIT, OverflowError when interpreted), int64 since
PFAF_W = 64


def case_pfaf_net(ctx, x, jit=None):
    ds, depth, n = x["ds"], x["depth"], len(x["ds"])
    st, out, seq, pits, um, upa = run_pfaf_kernel(ds, depth)
    req = ("c16v_pfaf_net", {"w": PFAF_W, "signed": 1, "ds": ds, "seq": seq, "pits": pits, "usmain": um, "uparea": upa, "depth": depth})
    base = sum(10 ** d for d in range(depth))
    seeds = [base + (i + 1) * 10 ** depth for i in range(len(pits))]

    def judge(ans):
        e = drv_err(ans)
        if e:
            return e
        L, fs = ans[0], []
        if L["model.ok"] != [1] or L["topo"] != [1]:
            return [{"kind": "model", "what": "Pfafstetter model did not run / order not downstream-first"}]
        dom = depth <= 3
        if L["seeds.fit"] != [int(max(seeds) <= 2 ** (PFAF_W - 1) - 1)]:
            fs.append({"kind": "model", "what": "seeds.fit verdict"})
        if L["branch.fits"] == [1]:
            if st != "ok":
                fs.append({"kind": "spec" if dom else "model", "what": f"subbasins_pfafstetter(depth={depth}) raised {out} although every pfaf_branch value fits int{PFAF_W}"})
            elif L["tie"] == [0] and L["side"] == [1]:
                lab, outl = out
                if lab.dtype != np.int32 or ints(lab) != L["labels"] or canon_idx(outl, n) != L["outlets"]:
                    if dom:
                        fs.append({"kind": "model", "what": f"subbasins_pfafstetter(depth={depth}) != model although pfaf_branch fits int{PFAF_W}", "impl": ints(lab)[:12], "model": L["labels"][:12]})
                    else:
                        ctx.count(f"obs:pfaf-depth-{depth}:implementation != model with fitting seeds (outside C18's depths)")
            else:
                ctx.count("v:pfaf:tie-or-side-condition:not-compared")
        else:
            ctx.count(f"obs:pfaf-branch-overflow:depth {depth}, {len(pits)} pits" + (" INSIDE C18's depths" if dom else ""))
            if dom:
                fs.append({"kind": "spec", "what": f"pfaf_branch does not fit int{PFAF_W} at depth {depth} with {len(pits)} pits (inside C18's quantified depths)"})
            if st == "ok":
                # interpreter: NumPy >= 2 refuses the out-of-range Python int; a returned map must at least not be the
                # unbounded model's (it cannot be represented)
                ctx.count("obs:pfaf-branch-overflow:interpreter returned a map")
            elif "OverflowError" not in str(out):
                fs.append({"kind": "model", "what": f"pfaf_branch overflow: interpreter raised {out}, expected OverflowError of the int{PFAF_W} store"})
            else:
                ctx.count("obs:pfaf-branch-overflow:interpreter raises OverflowError (NumPy >= 2 store of a Python int)")
        if jit is not None and x.get("chain_only"):
            # under the JIT the int64 seed is truncated on the store; without tributaries every cell of basin i carries
            # load(store seed_i) % 10**depth
            want = [wrap_py(s, PFAF_W, 1) % 10 ** depth for s in seeds]
            basin = list(range(n))
            for i in seq:
                basin[i] = basin[ds[i]] if ds[i] != i else pits.index(i)
            pred = [want[basin[i]] for i in range(n)]
            if isinstance(jit, str):
                fs.append({"kind": "model", "what": "JIT run of subbasins_pfafstetter failed: " + jit})
            elif jit != pred:
                fs.append({"kind": "model", "what": f"JIT subbasins_pfafstetter(depth={depth}) != truncation model of the int{PFAF_W} seeds", "jit": jit[:12], "pred": pred[:12]})
            elif L["seeds.fit"] == [0]:
                ctx.count(f"obs:pfaf-branch-overflow:JIT silently returns wrapped codes as predicted (depth {depth})")
        return fs

    ctx.add(compat({"kind": "pfaf_net", **x}), [req], judge, nontrivial=True, key={"kind": "pfaf_net", **x})


JIT_SCRIPT = r'''
import json, sys, warnings
sys.path.insert(0, sys.argv[1])
sys.path.insert(0, sys.argv[2])
import numpy as np
warnings.simplefilter("ignore")
from props.c16_val import run_pfaf_kernel
out = []
for x in json.load(sys.stdin):
    try:
        st, res, *_ = run_pfaf_kernel(x["ds"], x["depth"])
        out.append([int(v) for v in res[0]] if st == "ok" else "exc:" + str(res))
    except Exception as e:
        out.append("exc:" + type(e).__name__ + ":" + str(e)[:80])
json.dump(out, sys.stdout)
'''


def jit_start(xs):
    from common import REPO
    env = dict(os.environ)
    env.pop("NUMBA_DISABLE_JIT", None)
    env["PF_JIT"] = "1"            # common.py: do not switch the JIT off in the worker
    here = os.path.dirname(os.path.dirname(os.path.abspath(__file__)))
    p = subprocess.Popen([sys.executable, "-c", JIT_SCRIPT, REPO, here], stdin=subprocess.PIPE, stdout=subprocess.PIPE,
                         stderr=subprocess.PIPE, env=env)
    p.stdin.write(json.dumps(xs).encode())
    p.stdin.close()
    return p


def jit_collect(p, k):
    try:
        p.wait(timeout=600)
        if p.returncode != 0:
            return ["exc:worker:" + p.stderr.read().decode(errors="replace")[-300:]] * k
        return json.loads(p.stdout.read().decode())
    except Exception as e:  # noqa: BLE001
        p.kill()
        return ["exc:worker:" + type(e).__name__] * k


# ------------------------------------------------------------------------------------------------
# F. basin ids, G. floodplain flags
# ------------------------------------------------------------------------------------------------
def case_basins(ctx, x):
    from pyflwdir import basins
    ds, n = x["ds"], len(x["ds"])
    ds_np = ds_to_np(ds, np.int32)
    seq = topo_of(ds)
    pits = [i for i in range(n) if ds[i] == i]
    st, out = call(lambda: basins.basins(ds_np, np.array(pits, dtype=np.int32), np.array(seq, dtype=np.int32)))
    if st != "ok":
        ctx.fail(compat({"kind": "basins", **x}), "spec", "basins.basins raised " + str(out))
        return
    reqs = [("c16v_basins", {"w": 32, "signed": 0, "ds": ds, "seq": seq, "pits": pits}),
            ("c16v_basins", {"w": 8, "signed": 0, "ds": ds, "seq": seq, "pits": pits})]

    def judge(ans):
        e = drv_err(ans)
        if e:
            return e
        L, fs = ans[0], []
        if L["topo"] != [1] or L["bound_ok"] != [1] or L["fits"] != [1]:
            fs.append({"kind": "model", "what": "basin ids: order / bound 0..npits / uint32 capacity"})
        if out.dtype != np.uint32 or ints(out) != L["pred"] or L["pred"] != L["labels"]:
            fs.append({"kind": "spec", "what": f"basins.basins ({out.dtype}) != ids 1..npits filled upstream although they fit uint32"})
        cast = ints(out.astype(np.uint8))
        if ans[1]["pred"] != cast or ans[1]["fits"] != [int(cast == ints(out))]:
            fs.append({"kind": "model", "what": "what-if uint8: Lean load(store id) / fits != astype round trip"})
        return fs

    ctx.add(compat({"kind": "basins", **x}), reqs, judge, nontrivial=len(pits) >= 100, key={"kind": "basins", **x})


def case_flags(ctx, rng):
    from pyflwdir import dem
    if not hasattr(dem, "floodplains"):
        ctx.count("v:flags:helper-absent-in-this-tree")
        return
    ds = gen_forest(rng, rng.randint(5, 60), p_nodata=0.2)
    n = len(ds)
    seq = topo_of(ds)
    cnt = [1] * n
    for i in reversed(seq):
        if ds[i] != i:
            cnt[ds[i]] += cnt[i]
    elv = np.array([rng.randint(0, 9) for _ in range(n)], dtype=np.float32)
    st, out = call(lambda: dem.floodplains(ds_to_np(ds, np.int32), np.array(seq, dtype=np.int32), elv,
                                           np.array(cnt, dtype=np.float64), upa_min=float(rng.randint(1, 4)), b=0.3))
    if st != "ok":
        ctx.fail(compat({"kind": "flags", "ds": ds}), "spec", "dem.floodplains raised " + str(out))
        return
    vals = sorted(set(ints(out)))
    ctx.count("v:flags:floodplains")
    x = {"dtype": "int8", "vals": vals}

    def judge(ans):
        e = drv_err(ans)
        if e:
            return e
        L = ans[0]
        if out.dtype != np.int8 or not set(vals) <= {-1, 0, 1} or L["fits"] != [1] * len(vals) or L["loaded"] != vals:
            return [{"kind": "spec", "what": f"dem.floodplains: values {vals} ({out.dtype}) are not the int8 flags -1, 0, 1"}]
        if [v == -1 for v in ints(out)] != [i not in set(seq) for i in range(n)]:
            return [{"kind": "spec", "what": "dem.floodplains: -1 is not exactly the cells outside the network"}]
        return []

    ctx.add(compat({"kind": "flags", "ds": ds, **x}), [("c16v_store", {"w": 8, "signed": 1, "vals": vals})], judge, nontrivial=False)


# ------------------------------------------------------------------------------------------------
def run(ctx):
    rng = ctx.rng
    use_jit = os.environ.get("PF_C16V_JIT", "1") != "0"
    if getattr(ctx, "replay", None):
        d = (ctx.replay.get("failure", {}) or {}).get("desc") or ((ctx.replay.get("model_mismatches") or [{}])[0].get("desc"))
        if d and d.get("ext") == "c16_val":
            x = dict(d["x"])
            kind = x.pop("kind")
            fn = {"store": case_store, "rank": case_rank, "nup": case_nup, "order": case_order, "pfaf_seed": case_pfaf_seed,
                  "pfaf_net": case_pfaf_net, "basins": case_basins}.get(kind)
            if fn:
                fn(ctx, x)
                ctx.flush()
    esc = ctx.escalate
    quick = ctx.tier == "quick"
    # Pfafstetter networks first: the JIT worker runs while the in-process cases are evaluated
    pf = []
    for k in range((14 if quick else 60) * esc):
        chain_only = k % 2 == 0
        depth = [1, 2, 3, 9, 8, 3, 9, 2, 7, 3, 4, 9, 6, 1][(k // 2) % 14]
        npits = rng.choice([1, 2, 3, 4, 9, 20, 40]) if depth <= 6 else rng.choice([1, 2, 3, 4, 21, 22])
        pf.append({"ds": pfaf_net(rng, npits, chain_only), "depth": depth, "chain_only": chain_only})
    jit_xs = [x for x in pf if x["chain_only"]][: (7 if quick and esc == 1 else 30)] if use_jit else []
    worker = jit_start(jit_xs) if jit_xs else None
    for _ in range((12 if quick else 100) * esc):
        gen_store(ctx, rng)
    for k in range((18 if quick else 60) * esc):
        gen_rank(ctx, rng, k)
        if len(ctx.cases) > 40:
            ctx.flush()
    ctx.flush()
    for k in range((16 if quick else 60) * esc):
        gen_nup(ctx, rng, k)
    for k in range((24 if quick else 90) * esc):
        gen_order(ctx, rng, k)
        if len(ctx.cases) > 40:
            ctx.flush()
    ctx.flush()
    for depth in range(1, 10):
        base = sum(10 ** d for d in range(depth))
        crit = (2 ** 31 - 1 - base) // 10 ** depth - 1          # largest 0-based pit number whose seed fits
        pits = sorted({0, 1, 2, max(crit - 1, 0), max(crit, 0), crit + 1, crit + 2, rng.randint(0, 2 * crit + 5)})
        ctx.count("v:pfaf:seeds")
        case_pfaf_seed(ctx, {"depth": depth, "pits": pits})
    for k in range((8 if quick else 30) * esc):
        npits = rng.choice([100, 255, 256, 257, 1000, 3000]) if k % 2 == 0 else rng.randint(1, 30)
        ds = pfaf_net(rng, npits, rng.random() < 0.5)
        ctx.count("v:basins")
        case_basins(ctx, {"ds": ds})
    for _ in range((6 if quick else 40) * esc):
        case_flags(ctx, rng)
    ctx.flush()
    jr = jit_collect(worker, len(jit_xs)) if worker else []
    ctx.count("v:pfaf:jit-probed", len(jr))
    jmap = {id(x): r for x, r in zip(jit_xs, jr)}
    for x in pf:
        ctx.count(f"v:pfaf:net:depth{x['depth']}:{'chains' if x['chain_only'] else 'trees'}")
        case_pfaf_net(ctx, x, jit=jmap.get(id(x)))
    ctx.flush()
