"""C13 extension `C13_bounds2` - the kernels OUTSIDE core.py never index outside an array.

Same technique as props/c13_bounds.py (which covers pyflwdir/core.py): the real kernels are executed in-process,
interpreted, on index-recording arrays; the Lean driver runs the access-logging variant of the kernel's model
(lean/PfVerif/Model/C13_bounds2.lean; Props/C13_bounds2.lean proves that it returns the ordinary model and that
every logged index is in bounds on the documented domain) and returns the logged indices per array.

Kernels: streams.accuflux / accuflux_ds / upstream_area / stream_order / strahler_order / stream_distance,
core.fillnodata_upstream / fillnodata_downstream, dem.height_above_nearest_drain / floodplains,
arithmetics.upstream_sum (1-D, cells), dem.fill_depressions (2-D, (row, column) pairs), dem._adjust_elevation
(positions of a 1-D profile, index vectors included).

 spec  failure: the implementation indexed an array outside its bounds (index >= size on some axis, or a negative
                index that is not a literal of the source line - a wrapped negative index is silent in numpy), raised
                on a valid input, or modified an input array
 model failure: the set of cells touched per ARGUMENT array differs from the model's log (order and multiplicity are
                not compared, except the order in which the entries of idxs_ds are first read = the order of the sweep;
                arrays the kernel allocates itself are bounds-checked but not compared), the results
                differ, or the model's own log is out of bounds on a well-formed input (would contradict the theorems)
"""
import linecache
import os
import re
import signal
import sys

import numpy as np

import worker
from common import (gen_raster_net, gen_forest, gen_funcgraph, gen_shape, canon_idx, ints, ds_to_np, exc_class, topo_of)

OPS = ["streams.accuflux", "streams.accuflux_ds", "streams.upstream_area", "core.fillnodata_upstream",
       "core.fillnodata_downstream", "streams.stream_order", "streams.strahler_order", "streams.stream_distance",
       "dem.height_above_nearest_drain", "dem.floodplains", "arithmetics.upstream_sum", "dem.fill_depressions", "dem._adjust_elevation"]
RULE = ("C13_bounds2: random loop-free networks <= 56 cells (quick) / <= 160 (thorough): D8 rasters and forests, with cells "
        "outside the network (missing value of the index dtype intp / int32 / uint32); seq = harness' own downstream-first "
        "order, the library's idxs_seq, a random downstream-first order, or the sub-basins of a subset of the pits; fields "
        "= small integers (float64 / float32 / int32) with 0-60% nodata; masks none / sparse / dense; upstream_sum also on "
        "functional graphs with loops; fill_depressions: rasters <= 56 cells, elevations 0..6 with 0-25% nodata, "
        "connectivity 4 / 8, outlets edge / min / idxs_pit, max_depth in {-1, 0, 1, 2, 3}; _adjust_elevation: profiles of "
        "1..14 small integers, random or descending with bumps. "
        "non-trivial = >= 2 cells in the network and (a cell outside the network or a confluence)")

# ---------------------------------------------------------------------------------------------------------
# recording arrays (1-D: cell, 2-D: (row, column))
# ---------------------------------------------------------------------------------------------------------
REC = []     # (array name, index | (row, column))
OOB = []     # descriptions
_FOR = re.compile(r"\s*for\s.+\sin\s")
_ASSIGN = re.compile(r"\s*(\w+)\s*=\s*np\.")
_LIT = re.compile(r"\[\s*-?\s*\d+\s*(?:,\s*-?\s*\d+\s*)*\]")


def _literal_neg(line, v):
    """the negative index v is written as a literal in the source line (`elevtn[-1]`, `struct[0, -1]`, `q[0][-2]`);
    stricter than worker._LITERAL_NEG, which also accepts computed indices such as `a[i - 1]`"""
    for m in _LIT.finditer(line):
        try:
            if v in [int(t.replace(" ", "")) for t in m.group(0)[1:-1].split(",")]:
                return True
        except ValueError:
            pass
    return False


def _is_int(it):
    return isinstance(it, (int, np.integer)) and not isinstance(it, (bool, np.bool_))


def _rec(arr, idx, kind):
    items = idx if isinstance(idx, tuple) else (idx,)
    name = getattr(arr, "_pfname", None) or "?"
    if len(items) == 1 and arr.ndim == 1 and isinstance(items[0], np.ndarray) and items[0].dtype.kind in "iu":
        # an index VECTOR (`elevtn[np.arange(a, b)]`): every element is an index
        size = arr.shape[0]
        for v in np.asarray(items[0]).ravel().tolist():
            REC.append((name, v))
            if v < 0 or v >= size:
                fr = sys._getframe(2)
                fn, ln = fr.f_code.co_filename, fr.f_lineno
                OOB.append(f"{name}[..{v}..] ({kind}, index vector, size {size}) at {os.path.basename(fn)}:{ln}: "
                           f"{linecache.getline(fn, ln).strip()[:80]}")
        return
    vals = []
    for ax, it in enumerate(items):
        if not _is_int(it):
            vals = None
            continue
        v = int(it)
        size = arr.shape[ax] if ax < arr.ndim else 0
        if v == size and kind == "read" and len(items) == 1:
            # `for x in arr:` walks an ndarray subclass through __getitem__(0), (1), ... until IndexError:
            # the probe at `size` is the iterator's end test, not an access of the source
            fr = sys._getframe(2)
            if _FOR.match(linecache.getline(fr.f_code.co_filename, fr.f_lineno)):
                return
        if v < 0 or v >= size:
            fr = sys._getframe(2)
            fn, ln = fr.f_code.co_filename, fr.f_lineno
            line = linecache.getline(fn, ln)
            if v < 0 and _literal_neg(line, v):     # literal negative index such as elevtn[-1]: slot size - 1
                if vals is not None:
                    vals.append(v + size)
                continue
            OOB.append(f"{name}[{v}] ({kind}, axis {ax}, size {size}) at {os.path.basename(fn)}:{ln}: {line.strip()[:80]}")
        if vals is not None:
            vals.append(v)
    if vals is not None and len(vals) == arr.ndim:
        REC.append((name, vals[0] if arr.ndim == 1 else tuple(vals)))


class RecArray(worker.GuardedArray):
    """records scalar accesses; arrays derived from it (copy(), comparisons, slices) are recorded under `~name`:
    they are the kernel's own arrays (bounds-checked, not compared)"""

    def __array_finalize__(self, obj):
        nm = getattr(obj, "_pfname", None)
        self._pfname = None if nm is None else (nm if nm.startswith("~") else "~" + nm)

    def __getitem__(self, idx):
        _rec(self, idx, "read")
        return np.ndarray.__getitem__(self, idx)

    def __setitem__(self, idx, val):
        _rec(self, idx, "write")
        np.ndarray.__setitem__(self, idx, val)


class RecProxy(worker.NpProxy):
    def __getattr__(self, name):
        v = getattr(object.__getattribute__(self, "_real"), name)
        if name in worker.NpProxy._wrap and callable(v):
            def f(*a, **k):
                r = v(*a, **k)
                if isinstance(r, np.ndarray) and r.ndim >= 1:
                    fr = sys._getframe(1)
                    m = _ASSIGN.match(linecache.getline(fr.f_code.co_filename, fr.f_lineno))
                    out = np.asarray(r).view(RecArray)
                    out._pfname = "~" + (m.group(1) if m else "?")
                    return out
                return r
            return f
        return v


def named(a, name, dtype=None):
    out = np.array(a, dtype=dtype, copy=True).view(RecArray)
    out._pfname = name
    return out


def _mods():
    import pyflwdir.core as core
    import pyflwdir.streams as streams
    import pyflwdir.dem as dem
    import pyflwdir.arithmetics as arithmetics
    return [core, streams, dem, arithmetics]


def recorded(fn):
    """run one kernel under the recorder; returns (status, result, touched: name -> set, oob list)"""
    del REC[:]
    del OOB[:]
    mods = _mods()
    real = [m.np for m in mods]
    core = mods[0]
    real_nup = core.upstream_count

    def plain_nup(idxs_ds, mask=None, mv=core._mv):      # core.upstream_count is covered by C13_bounds
        return real_nup(np.asarray(idxs_ds), mask=None if mask is None else np.asarray(mask), mv=mv)
    for m in mods:
        m.np = RecProxy(np)
    core.upstream_count = plain_nup
    signal.alarm(60)
    try:
        try:
            st, res = "ok", fn()
        except Exception as e:  # noqa: BLE001 - an exception on a valid input is an observation
            st, res = "exc", f"{exc_class(e)}: {str(e)[:120]}"
    finally:
        signal.alarm(0)
        for m, r in zip(mods, real):
            m.np = r
        core.upstream_count = real_nup
    touched = {}
    for name, v in REC:
        touched.setdefault(name, set()).add(v)
    touched["@order:ds"] = first_touch([v for name, v in REC if name == "ds"])
    return st, res, touched, list(OOB)


def self_test():
    a = named(np.arange(5), "t")
    mvi, m1 = np.intp(-1), np.int64(-1)
    del REC[:], OOB[:]
    _ = a[mvi]
    assert len(OOB) == 1 and ("t", -1) in REC, OOB
    try:
        _ = a[np.intp(5)]
    except IndexError:
        pass
    assert len(OOB) == 2, OOB
    _ = a[-1]
    assert ("t", 4) in REC
    iv = np.arange(1, 3, dtype=np.uint32)
    _ = a[iv]
    assert ("t", 1) in REC and ("t", 2) in REC and len(OOB) == 2, (REC, OOB)
    b = a.copy()
    b[2] = 7
    assert len(OOB) == 2 and ("~t", 2) in REC, (OOB, REC)
    g = named(np.zeros((2, 3)), "g")
    _ = g[np.int64(1), np.int64(2)]
    assert ("g", (1, 2)) in REC and len(OOB) == 2
    _ = g[m1, np.int64(2)]
    try:
        _ = g[np.int64(2), np.int64(0)]
    except IndexError:
        pass
    assert len(OOB) == 4, OOB
    _ = g[-1, -1]
    assert len(OOB) == 4, OOB
    del REC[:], OOB[:]


# ---------------------------------------------------------------------------------------------------------
# worlds
# ---------------------------------------------------------------------------------------------------------
def wf(ds):
    n = len(ds)
    return all(0 <= d <= n and (d == n or ds[d] != n) for d in ds)


def random_topo(rng, ds):
    """a random downstream-first order of the cells that reach a pit"""
    n = len(ds)
    ups = [[] for _ in range(n)]
    for i, d in enumerate(ds):
        if d != n and d != i:
            ups[d].append(i)
    ready = [i for i in range(n) if ds[i] == i]
    seq = []
    while ready:
        k = rng.randrange(len(ready))
        ready[k], ready[-1] = ready[-1], ready[k]
        i = ready.pop()
        seq.append(i)
        ready.extend(ups[i])
    return seq


def sub_basins(rng, ds):
    n = len(ds)
    pits = [i for i in range(n) if ds[i] == i]
    keep = set(rng.sample(pits, rng.randint(1, len(pits)))) if pits else set()
    ds2 = [d if (i not in pits or i in keep) else n for i, d in enumerate(ds)]
    # cells draining to a dropped pit are not reached from the kept pits
    ups = [[] for _ in range(n)]
    for i, d in enumerate(ds2):
        if d != n and d != i:
            ups[d].append(i)
    seq = sorted(keep)
    k = 0
    while k < len(seq):
        seq.extend(ups[seq[k]])
        k += 1
    return seq


def first_touch(xs):
    seen, out = set(), []
    for x in xs:
        if x not in seen:
            seen.add(x)
            out.append(x)
    return out


def cmp_sets(ans, touched, argnames):
    diffs = []
    # The ORDER of the reads is NOT compared (it was, in the first version: the harmless rewrite C04-h1 collects the links
    # in one forward pass over seq before it accumulates in reverse - same cells, another order - and the check answered
    # `no-failing-input-found`).  "In bounds" is a statement about WHICH entries are addressed; the per-array sets below are
    # the tie between the theorem's log and the code, the direct bounds check of every recorded access is the judge.
    for a in argnames:
        m = set(ans.get("log." + a, []))
        i = touched.get(a, set())
        if m != i:
            diffs.append(f"{a}: only model {sorted(m - i)[:8]}, only implementation {sorted(i - m)[:8]}")
    return diffs


def cmp_pairs(ans, touched, argnames):
    diffs = []
    for a in argnames:
        flat = ans.get("log." + a, [])
        m = set(zip(flat[0::2], flat[1::2]))
        i = touched.get(a, set())
        if m != i:
            diffs.append(f"{a}: only model {sorted(m - i)[:6]}, only implementation {sorted(i - m)[:6]}")
    return diffs


ACCESS_DIFFS = {}


def make_judge(kernel, st, res_canon, touched, oob, mutated, argnames, cmp=cmp_sets, extra=None, need_closed=True):
    def judge(answers):
        ans = answers[0]
        fs = []
        if oob:
            fs.append({"kind": "spec", "what": f"{kernel}: array indexed outside its bounds: " + "; ".join(oob[:4])})
        if st != "ok":
            fs.append({"kind": "spec", "what": f"{kernel}: valid call raised {res_canon}"})
        if mutated:
            fs.append({"kind": "spec", "what": f"{kernel}: modified its input array(s) {mutated}"})
        if "__err__" in ans:
            fs.append({"kind": "model", "what": f"{kernel}: model driver error {ans['__err__']}"})
            return fs
        if need_closed and ans.get("closed") != [1]:
            fs.append({"kind": "model", "what": f"{kernel}: the generated sequence is not closed (harness defect)"})
        if ans["inb"] != [1]:
            fs.append({"kind": "model", "what": f"{kernel}: the model's access log is out of bounds on a well-formed input (contradicts the theorem)"})
        if st == "ok":
            if ans["model"] != res_canon:
                fs.append({"kind": "model", "what": f"{kernel}: result differs: model {ans['model'][:12]} implementation {res_canon[:12]}"})
            if extra is not None:
                fs.extend(extra(ans))
            d = cmp(ans, touched, argnames)
            if d and not oob:
                # NOT a failure (it was, in the first version): which in-range entries a kernel reads is not part of the
                # property. The harmless rewrite C08-h3 inlines upstream_count into stream_order (reads idxs_ds at more
                # cells) and vectorises `drain != 1` in HAND (no scalar reads at all): results identical, every access in
                # bounds, and the check answered `no-failing-input-found`. The tie to the model is the result equality above;
                # "in bounds" is judged directly on every recorded access of the implementation (`oob`). The difference is
                # counted so that the evidence shows when the logging model no longer describes the code's access pattern.
                ACCESS_DIFFS[kernel] = ACCESS_DIFFS.get(kernel, 0) + 1
        return fs
    return judge


FLD_DT = [np.float64, np.float32, np.int32]


def gen_field(rng, n, lo=0, hi=6, nodata=-9999):
    p = rng.choice([0.0, 0.2, 0.6])
    return [nodata if rng.random() < p else rng.randint(lo, hi) for _ in range(n)]


def run_networks(ctx):
    import pyflwdir.core as core
    import pyflwdir.streams as streams
    import pyflwdir.dem as dem
    import pyflwdir.arithmetics as arithmetics
    from pyflwdir import gis_utils
    rng = ctx.rng
    mx = 56 if ctx.tier == "quick" else 160
    nworlds = (60 if ctx.tier == "quick" else 300) * getattr(ctx, "escalate", 1)
    for w in range(nworlds):
        u = rng.random()
        if u < 0.6:
            ds, shape, fam = gen_raster_net(rng, max_cells=mx, loopfree=True)
        else:
            n0 = rng.randint(2, mx)
            ds, fam = gen_forest(rng, n0, p_nodata=rng.choice([0.0, 0.2, 0.5])), "vforest"
            shape = (1, n0)
        ds = list(ds)
        n = len(ds)
        ncol = shape[1]
        if not wf(ds):
            raise RuntimeError("generator produced an ill-formed network")
        outside = [i for i in range(n) if ds[i] == n]
        valid = [i for i in range(n) if ds[i] != n]
        nupc = [0] * n
        for i in valid:
            if ds[i] != i:
                nupc[ds[i]] += 1
        nontriv = len(valid) >= 2 and (bool(outside) or max(nupc) > 1)
        dtype = rng.choice([np.intp, np.intp, np.int32, np.uint32])
        ds_np = ds_to_np(ds, dtype)
        mv = ds_np.dtype.type(np.array(-1).astype(dtype))
        sk = rng.choice(["own", "own", "library", "random", "subbasins"])
        if sk == "own":
            seq = topo_of(ds)
        elif sk == "library":
            seq = ints(core.idxs_seq(ds_np, core.pit_indices(ds_np), mv))
            if len(seq) != len(topo_of(ds)):
                seq = topo_of(ds)
        elif sk == "random":
            seq = random_topo(rng, ds)
        else:
            seq = sub_basins(rng, ds)
        seq_np = np.array(seq, dtype=dtype)
        world = {"ds": ds, "family": fam, "dtype": np.dtype(dtype).name, "seq": seq, "seq_kind": sk}
        ctx.count("c13b2:family:" + fam)
        ctx.count("c13b2:seq:" + sk)
        if outside:
            ctx.count("c13b2:with-cells-outside")

        def case(kernel, op, margs, call, inputs, canon, extra_desc=None, need_closed=True):
            before = [(nm, np.array(a, copy=True)) for nm, a in inputs]
            st, res, touched, oob = recorded(call)
            mutated = [nm for (nm, b), (_, a) in zip(before, inputs) if not np.array_equal(np.asarray(a), b, equal_nan=False)]
            rc = canon(res) if st == "ok" else res
            desc = {"op": kernel, "world": world, **(extra_desc or {})}
            ctx.count("c13b2:" + kernel)
            argnames = [nm for nm, _ in inputs]
            ctx.add(desc, [(op, margs)], make_judge(kernel, st, rc, touched, oob, mutated, argnames, need_closed=need_closed),
                    nontrivial=nontriv)

        nodata = -9999
        base = {"ds": ds, "seq": seq}

        # --- accuflux / accuflux_ds / fillnodata ------------------------------------------------------
        for kernel, op, fn in (("streams.accuflux", "c13b2_accuflux", streams.accuflux),
                               ("streams.accuflux_ds", "c13b2_accuflux_ds", streams.accuflux_ds),
                               ("core.fillnodata_upstream", "c13b2_fillnodata_upstream", core.fillnodata_upstream)):
            data = gen_field(rng, n)
            dt = rng.choice(FLD_DT)
            a_ds, a_data = named(ds_np, "ds"), named(data, "data", dt)
            case(kernel, op, {**base, "data": data, "nodata": nodata},
                 lambda fn=fn, a_ds=a_ds, a_data=a_data, dt=dt: fn(a_ds, seq_np, a_data, dt(nodata)),
                 [("ds", a_ds), ("data", a_data)], ints, extra_desc={"data": data})
        how = rng.choice(["max", "min", "sum"])
        data = gen_field(rng, n)
        dt = rng.choice(FLD_DT)
        a_ds, a_data = named(ds_np, "ds"), named(data, "data", dt)
        case("core.fillnodata_downstream", "c13b2_fillnodata_downstream",
             {**base, "data": data, "nodata": nodata, "how": {"max": 0, "min": 1, "sum": 2}[how]},
             lambda: core.fillnodata_downstream(a_ds, seq_np, a_data, dt(nodata), how),
             [("ds", a_ds), ("data", a_data)], ints, extra_desc={"data": data, "how": how})

        # --- upstream_area (projected: the cell area is one number) -------------------------------------
        a_ds1 = named(ds_np, "ds")
        case("streams.upstream_area", "c13b2_upstream_area",
             {**base, "ncol": ncol, "row_area": [1] * (n // ncol + 1), "nodata": nodata},
             lambda: streams.upstream_area(a_ds1, seq_np, ncol, False, gis_utils.IDENTITY, 1, -9999.0, np.float64),
             [("ds", a_ds1)], ints)

        # --- stream orders, stream distance ----------------------------------------------------------
        upa = [1] * n
        for i in reversed(topo_of(ds)):
            if ds[i] != i:
                upa[ds[i]] += upa[i]
        usmain_np = np.asarray(core.main_upstream(ds_np, np.array(upa, dtype=np.float64), upa_min=0.0, mv=mv))
        usmain = canon_idx(usmain_np, n)
        for kernel in ("streams.stream_order", "streams.strahler_order", "streams.stream_distance"):
            mk = rng.choice(["none", "sparse", "dense", "all"])
            mask = None if mk == "none" else [rng.random() < {"sparse": 0.15, "dense": 0.7, "all": 2}[mk] for _ in range(n)]
            a_ds = named(ds_np, "ds")
            a_mask = None if mask is None else named(np.array(mask, dtype=bool), "mask")
            inputs = [("ds", a_ds)] + ([] if mask is None else [("mask", a_mask)])
            if kernel == "streams.stream_order":
                a_um = named(usmain_np, "us_main")
                case(kernel, "c13b2_stream_order", {**base, "usmain": usmain, "mask": mask},
                     lambda: streams.stream_order(a_ds, seq_np, a_um, mask=a_mask, mv=mv),
                     inputs + [("us_main", a_um)], ints, extra_desc={"mask": mask, "usmain": usmain})
            elif kernel == "streams.strahler_order":
                case(kernel, "c13b2_strahler", {**base, "mask": mask},
                     lambda: streams.strahler_order(a_ds, seq_np, mask=a_mask), inputs, ints, extra_desc={"mask": mask})
            else:
                case(kernel, "c13b2_stream_distance", {**base, "mask": mask},
                     lambda: streams.stream_distance(a_ds, seq_np, ncol, mask=a_mask, real_length=False), inputs, ints,
                     extra_desc={"mask": mask})

        # --- hand, floodplains -----------------------------------------------------------------------
        elev = [rng.randint(0, 12) for _ in range(n)]
        drain = [rng.random() < rng.choice([0.1, 0.4]) for _ in range(n)]
        a_ds, a_dr, a_el = named(ds_np, "ds"), named(np.array(drain, dtype=bool), "drain"), named(elev, "elevtn", np.float64)
        case("dem.height_above_nearest_drain", "c13b2_hand", {**base, "drain": drain, "elev": elev},
             lambda: dem.height_above_nearest_drain(a_ds, seq_np, a_dr, a_el),
             [("ds", a_ds), ("drain", a_dr), ("elevtn", a_el)], ints, extra_desc={"drain": drain, "elev": elev})
        upa_f = upa if rng.random() < 0.6 else [rng.randint(1, 9) for _ in range(n)]
        upa_min = rng.randint(2, 6)
        b = rng.choice([1.0, 0.0])
        hnum = list(upa_f) if b == 1.0 else [1] * n
        a_ds2, a_el2, a_up = named(ds_np, "ds"), named(elev, "elevtn", np.float32), named(upa_f, "uparea", np.float64)
        case("dem.floodplains", "c13b2_floodplains",
             {**base, "elev": elev, "uparea": upa_f, "upa_min": upa_min, "hnum": hnum, "hden": 1},
             lambda: dem.floodplains(a_ds2, seq_np, a_el2, a_up, upa_min=float(upa_min), b=b),
             [("ds", a_ds2), ("elevtn", a_el2), ("uparea", a_up)], ints,
             extra_desc={"elev": elev, "uparea": upa_f, "upa_min": upa_min, "b": b})

        # --- upstream_sum: all cells, also on networks with loops ----------------------------------------
        if rng.random() < 0.3:
            ds_u = list(gen_funcgraph(rng, n, p_nodata=rng.choice([0.0, 0.2, 0.5])))
            ctx.count("c13b2:upstream_sum:functional-graph")
        else:
            ds_u = ds
        data = gen_field(rng, n)
        dt = rng.choice(FLD_DT)
        dsu_np = ds_to_np(ds_u, dtype)
        a_ds, a_data = named(dsu_np, "ds"), named(data, "data", dt)
        case("arithmetics.upstream_sum", "c13b2_upstream_sum", {"ds": ds_u, "data": data, "nodata": nodata},
             lambda: arithmetics.upstream_sum(a_ds, a_data, nodata=dt(nodata), mv=mv),
             [("ds", a_ds), ("data", a_data)], ints, extra_desc={"data": data, "ds_u": ds_u}, need_closed=False)
        if ctx.cases and len(ctx.cases) > 400:
            ctx.flush()


def run_fill(ctx):
    import pyflwdir.dem as dem
    rng = ctx.rng
    nworlds = (60 if ctx.tier == "quick" else 300) * getattr(ctx, "escalate", 1)
    for w in range(nworlds):
        nrow, ncol = gen_shape(rng, max_cells=56 if ctx.tier == "quick" else 120)
        n = nrow * ncol
        p = rng.choice([0.0, 0.1, 0.25])
        hi = rng.choice([2, 4, 6])
        elev = [-9999 if rng.random() < p else rng.randint(0, hi) for _ in range(n)]
        if all(e == -9999 for e in elev):
            elev[rng.randrange(n)] = 0
        nod = [e == -9999 for e in elev]
        conn = rng.choice([4, 8])
        md = rng.choice([-1, -1, 0, 1, 1, 2, 3])
        ok = rng.choice(["edge", "edge", "min", "pits"])
        pits = None
        if ok == "pits":
            cand = [i for i in range(n) if not nod[i]]
            pits = sorted(rng.sample(cand, rng.randint(1, min(3, len(cand)))))
        dt = rng.choice([np.float32, np.float64, np.int32])
        a_el = named(np.array(elev).reshape(nrow, ncol), "elevtn", dt)
        before = np.array(a_el, copy=True)
        kw = {"outlets": "min" if ok == "min" else "edge", "nodata": dt(-9999), "max_depth": float(md), "connectivity": conn}
        if pits is not None:
            kw["idxs_pit"] = np.array(pits, dtype=np.intp)
        st, res, touched, oob = recorded(lambda: dem.fill_depressions(a_el, **kw))
        mutated = [] if np.array_equal(np.asarray(a_el), before) else ["elevtn"]
        d8 = None
        if st == "ok":
            rc, d8 = ints(res[0]), ints(res[1])
        else:
            rc = res
        desc = {"op": "dem.fill_depressions", "shape": [nrow, ncol], "elevtn": elev, "connectivity": conn, "max_depth": md,
                "outlets": ok, "idxs_pit": pits, "dtype": np.dtype(dt).name}
        ctx.count("c13b2:dem.fill_depressions")
        ctx.count("c13b2:fill:max_depth" + (">=0" if md >= 0 else "<0"))

        def extra(ans, d8=d8):
            fs = []
            if ans.get("empty") != [1]:
                fs.append({"kind": "model", "what": "dem.fill_depressions: the model ran out of fuel"})
            if d8 is not None and ans.get("d8") != d8:
                fs.append({"kind": "model", "what": f"dem.fill_depressions: d8 differs: model {ans.get('d8')[:12]} implementation {d8[:12]}"})
            return fs
        margs = {"nrow": nrow, "ncol": ncol, "conn": conn, "elev": elev, "nod": [int(x) for x in nod], "max_depth": md,
                 "min_mode": 1 if ok == "min" else 0, "pits": pits}
        ctx.add(desc, [("c13b2_fill_depressions", margs)],
                make_judge("dem.fill_depressions", st, rc, touched, oob, mutated, ["elevtn"], cmp=cmp_pairs, extra=extra,
                           need_closed=False),
                nontrivial=n >= 4 and sum(1 for x in nod if not x) >= 3)
        if ctx.cases and len(ctx.cases) > 400:
            ctx.flush()


def run_adjust(ctx):
    """dem._adjust_elevation on 1-D profiles: scalar indices and index vectors used on the profile"""
    import pyflwdir.dem as dem
    if not hasattr(dem, "_adjust_elevation"):
        ctx.count("c13b2:_adjust_elevation:not-comparable-in-this-tree")     # a rewrite may inline the helper
        return
    rng = ctx.rng
    nprof = (150 if ctx.tier == "quick" else 800) * getattr(ctx, "escalate", 1)
    for w in range(nprof):
        n = rng.choice([1, 2, 3, 4, 5, 6, 8, 10, 14])
        hi = rng.choice([2, 4, 9])
        kind = rng.random()
        if kind < 0.6:
            prof = [rng.randint(0, hi) for _ in range(n)]
        else:       # a descending trend with bumps: several pits, all three options compete
            prof = sorted((rng.randint(0, hi + n) for _ in range(n)), reverse=True)
            for _ in range(rng.randint(1, 3)):
                prof[rng.randrange(n)] += rng.randint(-3, 3)
            prof = [max(0, p) for p in prof]
        dt = rng.choice([np.float64, np.float32, np.int32])
        a_el = named(prof, "elevtn", dt)
        before = np.array(a_el, copy=True)
        st, res, touched, oob = recorded(lambda: dem._adjust_elevation(a_el))
        mutated = [] if np.array_equal(np.asarray(a_el), before) else ["elevtn"]
        rc = ints(res) if st == "ok" else res
        # the profile is copied at the top of the kernel (`elevtn = np.maximum(elevtn, elevtn[-1])`): the copy is the
        # array under observation
        both = {"elevtn": touched.get("elevtn", set()) | touched.get("~elevtn", set())}
        ctx.count("c13b2:dem._adjust_elevation")
        ctx.add({"op": "dem._adjust_elevation", "profile": prof, "dtype": np.dtype(dt).name},
                [("c13b2_adjust1d", {"elev": prof})],
                make_judge("dem._adjust_elevation", st, rc, both, oob, mutated, ["elevtn"], need_closed=False),
                nontrivial=n >= 4 and any(prof[k] < prof[k + 1] for k in range(n - 1)))
    ctx.flush()


def run(ctx):
    import pyflwdir.core as core
    if os.environ.get("PF_JIT", "0") == "1" or hasattr(core.rank, "py_func"):
        ctx.count("c13b2:skipped-compiled-kernels")
        ctx.notes.append("C13_bounds2: kernels are compiled in this process; access recording needs the interpreter")
        return
    self_test()
    run_networks(ctx)
    run_fill(ctx)
    run_adjust(ctx)

    # negative controls: (1) a sequence that holds a cell outside the network is reported out of bounds by the model's
    # own log (`data[idx_ds]` with idx_ds = mv); (2) the historical neighbour loop of fill_depressions (done[r, c] before
    # the raster-bounds test) is reported out of bounds at a corner cell
    def neg1(answers):
        a = answers[0]
        if "__err__" in a or a.get("inb") != [0] or a.get("closed") != [0] or 4 not in a.get("log.data", []):
            return [{"kind": "model", "what": f"negative control: a sequence with a cell outside the network was not reported: {a}"}]
        return []
    ctx.add({"op": "negative-control:accuflux on a cell outside the network"},
            [("c13b2_accuflux", {"ds": [0, 0, 1, 4], "seq": [0, 1, 2, 3], "data": [1, 1, 1, 1], "nodata": -9999})], neg1,
            nontrivial=True)

    def neg2(answers):
        a = answers[0]
        flat = a.get("log.done", [])
        if "__err__" in a or a.get("inb") != [0] or (-1, -1) not in set(zip(flat[0::2], flat[1::2])):
            return [{"kind": "model", "what": f"negative control: the historical fill_depressions order was not reported out of bounds: {a}"}]
        return []
    ctx.add({"op": "negative-control:fill_depressions historical order"},
            [("c13b2_fill_bad", {"nrow": 3, "ncol": 3, "conn": 8, "i0": 0})], neg2, nontrivial=True)
    ctx.flush()
    for k, v in sorted(ACCESS_DIFFS.items()):
        ctx.count(f"obs:access-pattern-differs-from-the-logging-model:{k}", v)
    if ACCESS_DIFFS:
        ctx.notes.append("C13_bounds2: for " + ", ".join(sorted(ACCESS_DIFFS)) + " the implementation addresses other in-range entries than the "
                         "logging model (results equal, every access in bounds): the in-bounds THEOREM no longer describes this code's access "
                         "pattern; in-bounds is established by the direct check of the recorded accesses only")
