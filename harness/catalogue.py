"""Catalogue of the public API of pyflwdir: for every public function / method a generator of
arguments inside its documented domain (including boundary option values) and a caller.

Used by C07 (JIT vs interpreter), C13 (termination / bounds / purity / documented errors) and
C16 (index dtype independence). Worlds and arguments are JSON-able so that they can be shipped to
worker processes running under a different NUMBA_DISABLE_JIT setting and be written to replays.
"""
import numpy as np

from common import gen_dem_net, gen_forest, gen_shape, ds_to_np

IDX_DTYPES = ["int32", "int64", "uint32", "uint64"]
# operations that are defined (and must terminate) on networks with loops
LOOP_SAFE = {"rank", "isvalid", "nnodes", "idxs_pit", "n_upstream", "mask", "idxs_seq", "order_cells", "repair_loops",
             "to_array", "upstream_area", "accuflux", "stream_order", "basins", "downstream", "upstream_sum", "dump_load",
             "area", "bounds", "extent", "index_xy", "set_transform", "fillnodata", "stream_distance", "wide_raster_to_array"}


# ---------------------------------------------------------------------------------------------
# worlds
# ---------------------------------------------------------------------------------------------
def ds_to_d8(ds, shape):
    """D8 code raster of a network with true 8-neighbour links (n = missing -> 247, pit -> 0)"""
    nrow, ncol = shape
    n = nrow * ncol
    code = {(0, 1): 1, (1, 1): 2, (1, 0): 4, (1, -1): 8, (0, -1): 16, (-1, -1): 32, (-1, 0): 64, (-1, 1): 128}
    out = []
    for i, d in enumerate(ds):
        if d == n:
            out.append(247)
        elif d == i:
            out.append(0)
        else:
            out.append(code[(d // ncol - i // ncol, d % ncol - i % ncol)])
    return out


def gen_world(rng, tier="quick", cls=None, min_cells=4):
    """JSON-able description of a network object + a pool of fields"""
    cls = cls or rng.choice(["raster", "raster", "raster", "vector"])
    latlon = glob = False
    if cls == "raster":
        latlon = rng.random() < 0.3
        # geographic rasters that span the whole globe in longitude (width exactly 360 degrees, as global
        # hydrography / CaMa-Flood maps have): xres = 360 / ncol; mostly with ncol not a power of two
        glob = latlon and rng.random() < 0.5
        while True:
            shape = gen_shape(rng, max_cells=42 if tier == "quick" else 120, max_side=8 if tier == "quick" else 12)
            if glob and shape[1] & (shape[1] - 1) == 0 and rng.random() < 0.8:
                continue
            if shape[0] * shape[1] >= min_cells:
                break
        ds = gen_dem_net(rng, shape, p_nodata=rng.choice([0.0, 0.1, 0.25]))
    else:
        n = rng.randint(max(min_cells, 3), 30)
        shape = (n,)
        ds = gen_forest(rng, n, fanin_bias=rng.choice([0.0, 0.4]))
        if rng.random() < 0.12:
            # a confluence with more tributaries than a D8 cell can have (vector / NEXTXY networks): 9..14 inflows
            k = rng.randint(9, 14)
            n = k + rng.randint(2, 6)
            shape = (n,)
            ds = [0] + [0] * k + [rng.randint(1, k) for _ in range(n - k - 1)]
    n = len(ds)
    loops = False
    if rng.random() < 0.15:
        # arbitrary functional graph: cycles, trees hanging on cycles (incl. tributaries with a lower index
        # than every cycle cell); only LOOP_SAFE operations run on such worlds
        from common import gen_funcgraph
        ds = gen_funcgraph(rng, n, p_nodata=0.1)
        loops = True
    if not any(ds[i] == i for i in range(n)):
        v = [i for i in range(n) if ds[i] != n]
        ds[v[-1]] = v[-1]
    res = rng.choice([(1, -1), (1, -1), (3, -4), (2, -2), (0.5, -0.25), (4, 3)])
    if latlon:
        res = rng.choice([(1, -1), (0.5, -0.5), (2, -1)])
    north = rng.choice([0, 40, -10]) if latlon else rng.choice([0, 100])
    west = rng.choice([0, 10])
    if glob:
        res = (360.0 / shape[1], res[1])
        west = rng.choice([-180, -180, 0])
    w = {"cls": cls, "ds": ds, "shape": list(shape), "dtype": "int32",
         "transform": [res[0], 0, west, 0, res[1], north], "latlon": latlon,
         "cache": rng.random() < 0.8, "loops": loops, "noncontig": rng.choice([None, None, None, None, "strided", "fortran", "transposed"])}
    valid = [i for i in range(n) if ds[i] != n]
    # distinct upstream areas (no exact ties): accumulate distinct local areas
    loc = list(range(1, n + 1))
    rng.shuffle(loc)
    w["area_distinct"] = [float(x) + 0.001 * i for i, x in enumerate(loc)]
    w["elev"] = [rng.randint(0, 30) for _ in range(n)]
    w["elevf"] = [rng.randint(0, 120) / 4 for _ in range(n)]
    w["ints"] = [rng.randint(-3, 9) for _ in range(n)]
    w["mask"] = [bool(rng.random() < 0.35) for _ in range(n)]
    w["holes"] = [(-9999 if rng.random() < 0.5 else rng.randint(1, 6)) for _ in range(n)]
    w["valid"] = valid
    return w


class World:
    """real objects built from a world description (inside the process that runs the op)"""

    def __init__(self, w, dtype=None):
        from affine import Affine
        from pyflwdir.pyflwdir import FlwdirRaster
        from pyflwdir.flwdir import Flwdir
        self.w = w
        self.n = len(w["ds"])
        self.dtype = np.dtype(dtype or w["dtype"]).type
        self.shape = tuple(w["shape"])
        idxs_ds = ds_to_np(w["ds"], self.dtype)
        self.transform = Affine(*w["transform"])
        if w["cls"] == "raster":
            self.flw = FlwdirRaster(idxs_ds, self.shape, "d8", transform=self.transform, latlon=w["latlon"], cache=w["cache"])
        else:
            self.flw = Flwdir(idxs_ds, cache=w["cache"])
        self.mv = int(self.flw._mv)

    def arr(self, key_or_list, dt):
        v = self.w[key_or_list] if isinstance(key_or_list, str) else key_or_list
        a = np.array(v, dtype=dt).reshape(self.shape)
        lay = self.w.get("noncontig")
        if lay and a.ndim == 2:
            if lay == "fortran":          # same values, column-major memory
                a = np.asfortranarray(a)
            elif lay == "transposed":     # a transposed view of the transposed data
                a = np.ascontiguousarray(a.T).T
            else:                         # a strided window of a larger array, as users slice rasters
                big = np.zeros((a.shape[0], 2 * a.shape[1]), dtype=a.dtype)
                big[:, ::2] = a
                a = big[:, ::2]
        return a

    def uparea_distinct(self):
        """upstream area with pairwise distinct values (so that main-stem choices are unique)"""
        return self.flw.accuflux(self.arr("area_distinct", np.float64), nodata=-9999.0)


# ---------------------------------------------------------------------------------------------
# canonicalisation
# ---------------------------------------------------------------------------------------------
def canon(x, W=None, strict_dtype=True):
    """exactly comparable, JSON-able form. Index-typed arrays (dtype = the network's index dtype)
    get their missing value mapped to -1 and dtype tag 'idx'."""
    if isinstance(x, tuple):
        return ["tuple"] + [canon(v, W, strict_dtype) for v in x]
    if isinstance(x, dict):
        return ["dict"] + [[str(k), canon(v, W, strict_dtype)] for k, v in sorted(x.items(), key=lambda kv: str(kv[0]))]
    if isinstance(x, np.ndarray):
        if W is not None and x.dtype == np.dtype(W.dtype) and x.dtype.kind in "iu":
            vals = [(-1 if int(v) == W.mv else int(v)) for v in x.ravel().tolist()]
            return ["arr", "idx", list(x.shape), vals]
        if x.dtype.kind == "f":
            vals = [("nan" if np.isnan(v) else ("inf" if v == np.inf else ("-inf" if v == -np.inf else float(v))))
                    for v in x.ravel().tolist()]
        elif x.dtype.kind == "b":
            vals = [bool(v) for v in x.ravel().tolist()]
        elif x.dtype.kind in "iu":
            vals = [int(v) for v in x.ravel().tolist()]
        else:
            vals = [canon(v, W, strict_dtype) for v in x.ravel().tolist()]
        return ["arr", x.dtype.name if strict_dtype else x.dtype.kind, list(x.shape), vals]
    if isinstance(x, (np.bool_, bool)):
        return bool(x)
    if isinstance(x, np.integer):
        if W is not None and type(x) == W.dtype:
            return ["idx", -1 if int(x) == W.mv else int(x)]
        return int(x)
    if isinstance(x, int):
        return x
    if isinstance(x, (np.floating, float)):
        return "nan" if np.isnan(x) else float(x)
    if x is None or isinstance(x, str):
        return x
    if hasattr(x, "__len__"):
        return ["list"] + [canon(v, W, strict_dtype) for v in x]
    return repr(x)


def floats_close(a, b, ulps=4):
    """structural comparison: everything identical except floats within `ulps` ulp (relative 2^-50)"""
    if isinstance(a, list) and isinstance(b, list):
        return len(a) == len(b) and all(floats_close(x, y, ulps) for x, y in zip(a, b))
    if isinstance(a, float) and isinstance(b, float):
        if a == b:
            return True
        return abs(a - b) <= ulps * 2.3e-16 * max(abs(a), abs(b)) or abs(a - b) <= ulps * 1.2e-7 * max(abs(a), abs(b)) * 0
    return a == b


def floats_close32(a, b, ulps=4):
    """like floats_close but tolerant to float32 storage rounding"""
    if isinstance(a, list) and isinstance(b, list):
        return len(a) == len(b) and all(floats_close32(x, y, ulps) for x, y in zip(a, b))
    if isinstance(a, float) and isinstance(b, float):
        return a == b or abs(a - b) <= ulps * 1.2e-7 * max(abs(a), abs(b))
    return a == b


def feats_canon(feats):
    return sorted([[list(map(list, ft["geometry"]["coordinates"])), {k: canon(v) for k, v in ft["properties"].items()}]
                   for ft in feats], key=repr)


# ---------------------------------------------------------------------------------------------
# the operations
# ---------------------------------------------------------------------------------------------
OPS = {}


class OracleMismatch(Exception):
    """raised by an operation caller whose result is fixed by the documentation and differs from the caller's own
    brute-force oracle. Not a ValueError / IndexError: C13 reports it as a spec failure of the call, C07 / C16 see
    an execution mode / index dtype that raises where the others return."""


def _raised(fn):
    """result of fn(), or the canonical marker of a documented exception class (compared between execution modes /
    index dtypes like any other result)"""
    try:
        return fn()
    except (ValueError, IndexError) as e:
        return "raised " + type(e).__name__


def op(name, classes=("raster", "vector"), group="misc", index_free=False, variants=1):
    """variants: how many independently drawn argument sets of this op are run per world (ops with a wide
    option space)"""
    def deco(fns):
        gen, call = fns()
        OPS[name] = {"gen": gen, "call": call, "classes": classes, "group": group, "variants": variants}
        return fns
    return deco


def _noargs(rng, w):
    return {}


def _prop(attr):
    return lambda: (_noargs, lambda W, a: getattr(W.flw, attr))


for _a in ["rank", "isvalid", "nnodes", "idxs_pit", "idxs_us_main", "n_upstream", "mask", "area", "distnc", "idxs_seq"]:
    op(_a, group="props")(_prop(_a))
for _a in ["bounds", "extent", "ncells"]:
    op(_a, classes=("raster",), group="props")(_prop(_a))


@op("order_cells", group="order")
def _():
    return (lambda rng, w: {"method": rng.choice(["sort", "walk"])},
            lambda W, a: (W.flw.order_cells(a["method"]), W.flw.idxs_seq)[1])


@op("main_upstream", group="main")
def _():
    return (lambda rng, w: {"own": rng.random() < 0.6},
            lambda W, a: W.flw.main_upstream(uparea=W.uparea_distinct() if a["own"] else None))


@op("stream_order", group="strord")
def _():
    def mask(W, a):
        if a.get("mask_upa"):   # downstream-closed stream mask: cells with at least k upstream cells
            return W.arr(stream_mask(W.w, "upa%d" % a["mask_upa"]), bool)
        return W.arr("mask", bool) if a["mask"] else None
    return (lambda rng, w: {"type": rng.choice(["strahler", "classic"]), "mask": rng.random() < 0.4,
                            "mask_upa": rng.choice([None, None, None, 2, 3, 5, 8])},
            lambda W, a: W.flw.stream_order(type=a["type"], mask=mask(W, a)))


@op("upstream_area", group="accu")
def _():
    def gen(rng, w):
        return {"unit": rng.choice(["cell", "m2", "km2", "ha"])} if w["cls"] == "raster" else {}
    return gen, lambda W, a: W.flw.upstream_area(**a)


@op("accuflux", group="accu")
def _():
    return (lambda rng, w: {"direction": rng.choice(["up", "down"]), "kind": rng.choice(["ints", "elevf"]),
                            "nodata": rng.choice([-9999, 3])},
            lambda W, a: W.flw.accuflux(W.arr(a["kind"], np.int64 if a["kind"] == "ints" else np.float64),
                                         nodata=a["nodata"], direction=a["direction"]))


def _dtype_free(c):
    """canonical form with the integer dtype tags removed (index arrays already have their missing value at -1)"""
    if isinstance(c, list):
        if len(c) == 4 and c[0] == "arr":
            return ["arr", "int" if c[1] == "idx" or c[1].startswith(("int", "uint")) else c[1], c[2], c[3]]
        if len(c) == 2 and c[0] == "idx":
            return c[1]
        return [_dtype_free(v) for v in c]
    return c


def _same_on_index_dtype(W, idt, fn, what):
    """result of fn(W) on the world's own object; the same call is then made on an object of the same class holding
    the same network (same cache flag, same fields) with index dtype(s) `idt` - the missing value is the dtype's own
    (-1 / 2^32-1 / 2^64-1) - and must give the same result modulo the integer dtype. Exceptions of the second call
    propagate like those of the first (C13 judges them, the guard of C13 covers both calls)."""
    import copy
    out = fn(W)
    c1 = _dtype_free(canon(out, W))
    for dt in ([idt] if isinstance(idt, str) else idt):
        V = copy.copy(W)
        V.dtype = np.dtype(dt).type
        V.flw = type(W.flw)(ds_to_np(W.w["ds"], V.dtype), cache=W.w["cache"]) if W.w["cls"] == "vector" else \
            type(W.flw)(ds_to_np(W.w["ds"], V.dtype), W.shape, W.flw.ftype, transform=W.flw.transform, latlon=W.flw.latlon, cache=W.w["cache"])
        V.mv = int(V.flw._mv)
        c2 = _dtype_free(canon(fn(V), V))
        if c1 != c2:
            raise OracleMismatch(f"{what}: {W.w['cls']} network with {np.dtype(dt).name} indices returns {str(c2)[:200]}, the same "
                                 f"network with {np.dtype(W.dtype).name} indices {str(c1)[:200]}")
    return out


@op("path", group="trace", variants=2)
def _():
    def gen(rng, w):
        a = {"idxs": [rng.choice(w["valid"]) for _ in range(rng.randint(1, 3))], "direction": rng.choice(["up", "down"]),
             "max_length": rng.choice([None, None, 0, 1, 2.5, 7]), "mask": rng.random() < 0.4}
        if w["cls"] == "raster":
            a["unit"] = rng.choice(["cell", "m"])
            a["xy"] = rng.random() < 0.3
        else:
            # Flwdir.path is the base-class method FlwdirRaster overrides: only vector worlds reach it, and C13 builds
            # every world with int32 indices. The same call is repeated on a base-class object holding the same
            # network with each of the four index dtypes (both directions; `_same_on_index_dtype`).
            a["idx_dtypes"] = list(IDX_DTYPES)
        return a

    def call(W, a):
        if W.w["cls"] == "vector" and a.get("idx_dtypes"):
            return _same_on_index_dtype(W, a["idx_dtypes"], lambda V: _path_call(V, a), f"path({a})")
        return _path_call(W, a)

    def _path_call(W, a):
        kw = dict(mask=W.arr("mask", bool) if a["mask"] else None, max_length=a["max_length"], direction=a["direction"])
        if W.w["cls"] == "raster":
            kw["unit"] = a["unit"]
            if a["xy"]:
                kw["xy"] = W.flw.xy(np.array(a["idxs"]))
            else:
                kw["idxs"] = np.array(a["idxs"])
        else:
            kw["idxs"] = np.array(a["idxs"])
        p, d = W.flw.path(**kw)
        return [np.asarray(x) for x in p], d
    return gen, call


@op("snap", classes=("raster",), group="trace")
def _():
    def gen(rng, w):
        return {"idxs": [rng.choice(w["valid"]) for _ in range(rng.randint(1, 3))], "direction": rng.choice(["up", "down"]),
                "max_length": rng.choice([None, 0, 1, 3]), "mask": rng.random() < 0.6, "unit": rng.choice(["cell", "m"])}
    return gen, lambda W, a: W.flw.snap(idxs=np.array(a["idxs"]), mask=W.arr("mask", bool) if a["mask"] else None,
                                        max_length=a["max_length"], direction=a["direction"], unit=a["unit"])


@op("fillnodata", group="arith")
def _():
    return (lambda rng, w: {"direction": rng.choice(["up", "down"]), "how": rng.choice(["min", "max", "sum"])},
            lambda W, a: W.flw.fillnodata(W.arr("holes", np.int64), -9999, direction=a["direction"], how=a["how"]))


@op("downstream", group="arith")
def _():
    return _noargs, lambda W, a: W.flw.downstream(W.arr("ints", np.int64))


@op("upstream_sum", group="arith")
def _():
    return _noargs, lambda W, a: W.flw.upstream_sum(W.arr("elev", np.int64))


@op("moving_average", group="window", variants=2)
def _():
    def wts(W, a):
        if not a["weights"]:
            return None
        w = W.arr("area_distinct", np.float64)
        if a.get("wzero"):  # weights that vanish on whole stretches (zero river width): windows of total weight 0
            w = np.ascontiguousarray(np.where(W.arr("elev", np.int64) % 3 != 0, 0.0, w))
        return w
    return (lambda rng, w: {"n": rng.choice([0, 1, 2, 3]), "restrict": rng.random() < 0.4, "weights": rng.random() < 0.5,
                            "wzero": rng.random() < 0.5, "dt": rng.choice(["float64", "float32"])},
            lambda W, a: W.flw.moving_average(W.arr("elevf", np.dtype(a.get("dt", "float64"))), n=a["n"], restrict_strord=a["restrict"],
                                              weights=wts(W, a)))


@op("moving_median", group="window")
def _():
    return (lambda rng, w: {"n": rng.choice([0, 1, 2]), "restrict": rng.random() < 0.4,
                            "dt": rng.choice(["float64", "float32", "int32"])},
            lambda W, a: W.flw.moving_median(W.arr("elev" if a["dt"] == "int32" else "elevf", np.dtype(a["dt"])), n=a["n"],
                                              restrict_strord=a["restrict"], nodata=-9999 if a["dt"] == "int32" else -9999.0))


@op("smooth_rivlen", group="window")
def _():
    return (lambda rng, w: {"min_rivlen": rng.choice([2, 5]), "max_window": rng.choice([4, 10])},
            lambda W, a: W.flw.smooth_rivlen(W.arr("elevf", np.float64), a["min_rivlen"], max_window=a["max_window"]))


@op("dem_adjust", group="dem")
def _():
    return (lambda rng, w: {"kind": rng.choice(["elev", "elevf"]), "dt": rng.choice(["float32", "float64"])},
            lambda W, a: W.flw.dem_adjust(W.arr(a["kind"], np.dtype(a.get("dt", "float32")))))


# Flwdir.add_pits(streams=...) of a VECTOR network raises AttributeError ('Flwdir' object has no attribute 'snap') in the
# tree under verification (reported; C13 finding). Until that is fixed the `streams=` variant is drawn for rasters only;
# set to True to draw it for vector networks too.
ADD_PITS_STREAMS_ON_VECTOR = True   # since fix 356b2c9 (F13j) the vector class snaps through core.snap
_STREAM_KINDS = [None, None, None, "mask", "mask", "upa2", "upa3", "all", "none"]


def upcount(ds):
    """brute force: number of cells that drain through each cell, itself included (0 for cells outside the network)"""
    n = len(ds)
    cnt = [0] * n
    for i in range(n):
        if ds[i] == n:
            continue
        j, steps = i, 0
        cnt[j] += 1
        while ds[j] != j and ds[j] != n and steps <= n:
            j = ds[j]
            cnt[j] += 1
            steps += 1
    return cnt


def stream_mask(w, kind):
    """boolean stream mask of a world (list): the world's random mask, the cells with >= 2 / >= 3 upstream cells (what
    users pass: upstream_area() >= threshold), every cell, no cell"""
    n = len(w["ds"])
    if kind == "mask":
        return [bool(v) for v in w["mask"]]
    if kind in ("upa2", "upa3"):
        thr = int(kind[3:])
        return [c >= thr for c in upcount(w["ds"])]
    return [kind == "all"] * n


def upa_threshold(rng, w, qs=(0.3, 0.5, 0.7, 0.85, 0.95)):
    """a threshold that BITES on this world: the accumulated `area_distinct` (what World.uparea_distinct returns, up to
    rounding) of the cell at a random quantile of the valid cells, plus a little (thresholds like upa_min = 2 leave
    every confluence of a 4 .. 56 cell raster above the threshold when the areas are accumulated distinct numbers)"""
    ds, n = w["ds"], len(w["ds"])
    acc = [0.0] * n
    for i in w["valid"]:
        j, steps = i, 0
        acc[j] += w["area_distinct"][i]
        while ds[j] != j and ds[j] != n and steps <= n:
            j, steps = ds[j], steps + 1
            acc[j] += w["area_distinct"][i]
    vals = sorted(acc[i] for i in w["valid"])
    q = rng.choice(qs)
    return q, round(vals[min(int(q * len(vals)), len(vals) - 1)] + 0.0005, 4)


@op("add_pits", group="mutate", variants=2)
def _():
    """add_pits(idxs=... | xy=...) and the `streams=` variant: the new pits are snapped to the first downstream cell
    of a boolean stream mask (start cells on and off the mask; raster shaped and flat mask). The network, the pits
    and the rank afterwards are returned; the network and the pits are also compared with a brute-force walk."""
    def gen(rng, w):
        a = {"idxs": [rng.choice(w["valid"]) for _ in range(rng.randint(1, 2))]}
        raster = w["cls"] == "raster"
        kind = rng.choice(_STREAM_KINDS) if raster or ADD_PITS_STREAMS_ON_VECTOR else None
        if kind:
            m = stream_mask(w, kind)
            on, off = [i for i in w["valid"] if m[i]], [i for i in w["valid"] if not m[i]]
            pick = [rng.choice(off)] if off else []
            if on and (not pick or rng.random() < 0.5):
                pick.append(rng.choice(on))
            a.update(idxs=pick or a["idxs"], streams=kind, flat=rng.random() < 0.3)
        if raster and rng.random() < 0.25:
            a["xy"] = True
        return a

    def call(W, a):
        f = W.flw
        n = W.n
        kind = a.get("streams")
        kw = {}
        m = None
        if kind:
            m = stream_mask(W.w, kind)
            kw["streams"] = np.array(m, dtype=bool) if a.get("flat") else W.arr(m, bool)
        if a.get("xy"):
            kw["xy"] = f.xy(np.array(a["idxs"]))
        else:
            kw["idxs"] = np.array(a["idxs"])
        ds0 = [n if v == W.mv else v for v in np.asarray(f.idxs_ds).tolist()]
        f.add_pits(**kw)
        out = (f.idxs_ds.copy(), f.idxs_pit, f.rank)
        # brute force: every start cell walks down the network as it was to the first stream cell (or pit)
        exp = list(ds0)
        for i in a["idxs"]:
            j, steps = i, 0
            while m is not None and not m[j] and ds0[j] != j and ds0[j] != n and steps <= n:
                j, steps = ds0[j], steps + 1
            exp[j] = j
        got = [n if v == W.mv else int(v) for v in np.asarray(f.idxs_ds).tolist()]
        pits = sorted(int(v) for v in np.asarray(f.idxs_pit).tolist())
        if got != exp or pits != [i for i in range(n) if exp[i] == i]:
            raise OracleMismatch(f"add_pits({'xy' if a.get('xy') else 'idxs'}={a['idxs']}, streams={kind}): network {got}, idxs_pit {pits}; "
                                 f"brute force (first downstream stream cell of every start cell becomes a pit): network {exp}")
        return out
    return gen, call


@op("repair_loops", group="mutate")
def _():
    return _noargs, lambda W, a: (W.flw.repair_loops(), W.flw.idxs_ds.copy())[1]


@op("dump_load", group="mutate")
def _():
    def call(W, a):
        import os
        import tempfile
        fd, fn = tempfile.mkstemp(suffix=".pkl")
        os.close(fd)
        try:
            W.flw.dump(fn)
            g = type(W.flw).load(fn)
        finally:
            os.remove(fn)
        return g.idxs_ds, g.idxs_seq, g.nnodes
    return _noargs, call


@op("derived_objects", group="mutate")
def _():
    """objects derived from the object (scale-1 upscaling, dump/load) are edited; the source must not notice"""
    def call(W, a):
        import os
        import tempfile
        f = W.flw
        derived = []
        if W.w["cls"] == "raster" and a["via"] == "upscale1" and W.n >= 2:
            derived.append(f.upscale(1, method=a["method"])[0])
        else:
            fd, fn = tempfile.mkstemp(suffix=".pkl")
            os.close(fd)
            try:
                f.dump(fn)
                derived.append(type(f).load(fn))
            finally:
                os.remove(fn)
        nonpit = [i for i in W.w["valid"] if W.w["ds"][i] != i]
        for g in derived:
            if nonpit:
                g.add_pits(idxs=np.array([nonpit[a["k"] % len(nonpit)]]))
        return f.idxs_ds.copy(), f.idxs_pit, f.rank, [g.idxs_pit for g in derived]
    return (lambda rng, w: {"via": rng.choice(["upscale1", "dumpload"]), "method": rng.choice(["eam_plus", "dmm", "eam"]),
                            "k": rng.randint(0, 50)}, call)


# ---- raster only ---------------------------------------------------------------------------
R = ("raster",)


@op("to_array", classes=R, group="convert")
def _():
    return (lambda rng, w: {"ftype": rng.choice([None, "d8", "ldd", "nextxy"])},
            lambda W, a: W.flw.to_array(a["ftype"]))


_D8_CODE = {(0, 0): 0, (0, 1): 1, (1, 1): 2, (1, 0): 4, (1, -1): 8, (0, -1): 16, (-1, -1): 32, (-1, 0): 64, (-1, 1): 128}
_LDD_CODE = {(-1, -1): 7, (-1, 0): 8, (-1, 1): 9, (0, -1): 4, (0, 0): 5, (0, 1): 6, (1, -1): 1, (1, 0): 2, (1, 1): 3}
# link lengths whose row / column offset is congruent to -1, 0, 1 modulo 2^8 (the width of the local direction codes)
_WRAP_K = [255, 256, 257, 511, 512, 513]
_PLAIN_K = [1, 1, 2, 3, 126, 127, 128, 129, 130, 254, 258, 300]


def longlink_net(a):
    """network with non-local links, as NEXTXY rasters (CaMa-Flood) have them: `lines` parallel lines of `len`
    cells along the rows (along='col': shape lines x len) or the columns (shape len x lines); every cell drains to
    the next cell of its line in direction `sign`, the last one is a pit; ONE cell (line `line`, `pos0` cells from
    the upstream end) drains `k` cells ahead into line `line + other`; optionally the upstream end cells are
    nodata. Returns ds (n = missing) and the shape."""
    L, m, k, sgn = a["len"], a["lines"], a["k"], a["sign"]
    shape = (m, L) if a["along"] == "col" else (L, m)
    ncol = shape[1]
    n = L * m

    def idx(line, pos):
        return line * ncol + pos if a["along"] == "col" else pos * ncol + line

    def at(q):   # q cells from the upstream end
        return q if sgn > 0 else L - 1 - q
    ds = [n] * n
    for line in range(m):
        for q in range(L):
            if q == 0 and a["nodata"]:
                continue
            ds[idx(line, at(q))] = idx(line, at(min(q + 1, L - 1)))
    ds[idx(a["line"], at(a["pos0"]))] = idx(a["line"] + a["other"], at(a["pos0"] + k))
    return ds, shape


def longlink_expect(ds, shape, ftype):
    """documented result of to_array(ftype), by brute force: the raster of local direction codes, ValueError
    when a link leaves the 3 x 3 neighbourhood (d8 / ldd); one-based next column / row (nextxy)"""
    ncol = shape[1]
    n = len(ds)
    if ftype == "nextxy":
        nx = [-9999 if d == n else (-9 if d == i else d % ncol + 1) for i, d in enumerate(ds)]
        ny = [-9999 if d == n else (-9 if d == i else d // ncol + 1) for i, d in enumerate(ds)]
        return ["arr", "int32", [2] + list(shape), nx + ny]
    code, mv = (_D8_CODE, 247) if ftype == "d8" else (_LDD_CODE, 255)
    vals = []
    for i, d in enumerate(ds):
        if d == n:
            vals.append(mv)
            continue
        dd = code.get((d // ncol - i // ncol, d % ncol - i % ncol))
        if dd is None:
            return "raised ValueError"
        vals.append(dd)
    return ["arr", "uint8", list(shape), vals]


@op("wide_raster_to_array", classes=R, group="convert")
def _():
    """to_array of a network the operation builds itself (independent of the world; only the index dtype and the
    cache flag are the world's): rasters with a side of 4 .. 560 cells and one link spanning k rows / columns"""
    def gen(rng, w):
        k = rng.choice(_WRAP_K) if rng.random() < 0.5 else rng.choice(_PLAIN_K)
        m = rng.randint(1, 3)
        line = rng.randrange(m)
        other = rng.choice([o for o in (-1, 0, 1) if 0 <= line + o < m])
        L = k + rng.randint(3, 45)
        fts = ["d8", "ldd", "nextxy", None]
        rng.shuffle(fts)
        return {"k": k, "len": L, "lines": m, "line": line, "other": other, "along": rng.choice(["col", "row"]),
                "sign": rng.choice([1, -1]), "pos0": rng.randint(1, L - 1 - k), "nodata": rng.random() < 0.4,
                "ftypes": fts[:rng.randint(1, 2)]}

    def call(W, a):
        from pyflwdir.pyflwdir import FlwdirRaster
        ds, shape = longlink_net(a)
        flw = FlwdirRaster(ds_to_np(ds, W.dtype), shape, "nextxy", cache=W.w["cache"])
        out = []
        for ft in a["ftypes"]:
            got = _raised(lambda: flw.to_array(ft))
            want = longlink_expect(ds, shape, ft or "nextxy")
            if (got if isinstance(got, str) else canon(got)) != want:
                raise OracleMismatch(f"to_array({ft!r}) of a {shape[0]} x {shape[1]} NEXTXY network with a link spanning "
                                     f"{a['k']} {a['along']}s: expected {str(want)[:60]}, got {str(canon(got))[:60]}")
            out.append(got)
        return tuple(out)
    return gen, call


@op("from_array", classes=R, group="convert")
def _():
    def call(W, a):
        import pyflwdir
        d8 = W.arr(ds_to_d8(W.w["ds"], W.shape), np.uint8)
        kw = {}
        if a["mask"]:
            kw["mask"] = ~W.arr("mask", bool)
        if a["ftype"] == "ldd":
            from pyflwdir.core_conversion import d8_to_ldd
            d8 = d8_to_ldd(d8).astype(np.uint8)
        f = pyflwdir.from_array(d8, ftype=a["ftype"] if not a["infer"] else "infer", **kw)
        return f.idxs_ds.astype(np.int64), f.idxs_pit.astype(np.int64), f.ftype
    return (lambda rng, w: {"ftype": rng.choice(["d8", "ldd"]), "infer": rng.random() < 0.5, "mask": rng.random() < 0.3}, call)


@op("set_transform", classes=R, group="mutate")
def _():
    return (lambda rng, w: {"t": [2, 0, 5, 0, -2, 9], "latlon": False},
            lambda W, a: (W.flw.set_transform(tuple(a["t"]), a["latlon"]), W.flw.area, W.flw.bounds)[1:])


def _pow2(v):
    import math
    return v != 0 and math.frexp(abs(v))[0] == 0.5


def exact_grid(t):
    """both resolutions are powers of two (and the origin a small dyadic number): the transform, its inverse and
    every cell edge are computed without rounding, so points exactly ON an edge can be judged exactly"""
    return t.b == 0 and t.d == 0 and _pow2(t.a) and _pow2(t.e)


def flipped(t, shape, flip):
    """transform of the same extent with the x and / or the y axis reversed (its origin in another corner)"""
    from affine import Affine
    a, b, c, d, e, f = tuple(t)[:6]
    if "x" in flip:
        c, a = c + a * shape[1], -a
    if "y" in flip:
        f, e = f + e * shape[0], -e
    return Affine(a, b, c, d, e, f)


def cell_of(t, shape, x, y):
    """brute force over all cells: linear index of the cell whose half-open box (closed towards the transform's
    origin, the convention of floor(fractional row / col)) holds (x, y); None if no cell does"""
    found = []
    for r in range(shape[0]):
        for c in range(shape[1]):
            x0, x1, y0, y1 = t.c + t.a * c, t.c + t.a * (c + 1), t.f + t.e * r, t.f + t.e * (r + 1)
            if (x0 <= x < x1 if t.a > 0 else x1 < x <= x0) and (y0 <= y < y1 if t.e > 0 else y1 < y <= y0):
                found.append(r * shape[1] + c)
    if len(found) > 1:
        raise RuntimeError("harness: cells overlap")
    return found[0] if found else None


@op("index_xy", classes=R, group="coords", variants=2)
def _():
    """xy -> index round trip of cell centres, and index of points given in half cells (`pts`: [2 * col, 2 * row]):
    cell centres, points exactly on interior cell edges / corners and on the two raster borders at the transform's
    origin; on the object's own grid or on the same extent with reversed axes (`flip`). Edge points only where the
    grid arithmetic is exact (`exact_grid`), cell centres otherwise."""
    def call(W, a):
        f = W.flw
        if a.get("flip"):
            from pyflwdir.pyflwdir import FlwdirRaster
            f = FlwdirRaster(np.array(W.flw.idxs_ds).copy(), W.shape, W.flw.ftype, transform=flipped(W.transform, W.shape, a["flip"]),
                             latlon=W.w["latlon"], cache=W.w["cache"])
        t = f.transform
        xs, ys = f.xy(np.array(a["idxs"]))
        back = f.index(xs, ys)
        if [int(v) for v in np.atleast_1d(back)] != list(a["idxs"]):
            raise OracleMismatch(f"index(xy({a['idxs']})) = {np.asarray(back).tolist()} (cell centres, transform {tuple(t)[:6]})")
        out = [xs, ys, back]
        if a.get("pts"):
            half = [(p[0], p[1]) if exact_grid(t) else (p[0] | 1, p[1] | 1) for p in a["pts"]]
            px = np.array([t.c + t.a * (c2 / 2) for c2, _ in half], dtype=np.float64)
            py = np.array([t.f + t.e * (r2 / 2) for _, r2 in half], dtype=np.float64)
            got = f.index(px, py)
            want = [cell_of(t, W.shape, float(x), float(y)) for x, y in zip(px, py)]
            if [int(v) for v in np.atleast_1d(got)] != want or want != [(r2 // 2) * W.shape[1] + c2 // 2 for c2, r2 in half]:
                raise OracleMismatch(f"index({px.tolist()}, {py.tolist()}) = {np.asarray(got).tolist()}, the cells whose half-open "
                                     f"box holds the points are {want} (shape {W.shape}, transform {tuple(t)[:6]})")
            out += [px, py, got]
        return tuple(out)

    def gen(rng, w):
        nrow, ncol = w["shape"]
        pts = []
        for _ in range(rng.randint(0, 4)):
            kind = rng.random()
            c2, r2 = rng.randrange(2 * ncol), rng.randrange(2 * nrow)
            if kind < 0.25:      # on the raster border at the origin (a corner of the raster with probability 1/4)
                c2, r2 = (0, r2) if rng.random() < 0.5 else (c2, 0)
                if rng.random() < 0.25:
                    c2 = r2 = 0
            elif kind < 0.6:     # on a cell edge (even coordinate), possibly a cell corner
                c2, r2 = (c2 & ~1, r2) if rng.random() < 0.5 else (c2, r2 & ~1)
            pts.append([c2, r2])
        return {"idxs": [rng.randrange(len(w["ds"])) for _ in range(3)], "pts": pts,
                "flip": rng.choice([None, None, "x", "y", "xy"])}
    return gen, call


@op("basins", classes=R, group="basins")
def _():
    def call(W, a):
        if a["idxs"] is None:
            if a.get("pit_ids"):   # the full basin map with user ids for the pits
                npit = int(np.asarray(W.flw.idxs_pit).size)
                return W.flw.basins(ids=np.array([a["pit_ids"] + 3 * k for k in range(npit)], dtype=np.dtype(a["idt"])))
            return W.flw.basins()
        ids = None if a["ids"] is None else np.array(a["ids"], dtype=np.dtype(a["idt"]))
        return W.flw.basins(idxs=np.array(a["idxs"]), ids=ids)

    def gen(rng, w):
        if rng.random() < 0.4:
            if rng.random() < 0.4:
                return {"idxs": None, "pit_ids": rng.randint(2, 40), "idt": rng.choice(["uint8", "uint32", "int64"])}
            return {"idxs": None}
        k = rng.randint(1, 3)
        idxs = rng.sample(w["valid"], min(k, len(w["valid"])))
        return {"idxs": idxs, "ids": None if rng.random() < 0.4 else rng.sample(range(1, 200), len(idxs)),
                "idt": rng.choice(["uint8", "uint32", "int64"])}
    return gen, call


@op("subbasins_streamorder", classes=R, group="basins")
def _():
    def mask(W, a):
        if a.get("mask_upa"):
            return W.arr(stream_mask(W.w, "upa%d" % a["mask_upa"]), bool)
        return ~W.arr("mask", bool) if a["mask"] else None
    return (lambda rng, w: {"min_sto": rng.choice([-2, -1, 1, 2, 3, -3]), "mask": rng.random() < 0.3,
                            "mask_upa": rng.choice([None, None, None, 2, 3, 5])},
            lambda W, a: W.flw.subbasins_streamorder(min_sto=a["min_sto"], mask=mask(W, a)))


@op("subbasins_area", classes=R, group="basins")
def _():
    def gen(rng, w):
        if rng.random() < 0.5:
            q, thr = upa_threshold(rng, w)
            return {"area_min": thr, "area_q": q}
        return {"area_min": rng.choice([1, 3, 10])}
    return gen, lambda W, a: W.flw.subbasins_area(a["area_min"], uparea=W.uparea_distinct())


@op("subbasins_pfafstetter", classes=R, group="basins")
def _():
    def gen(rng, w):
        n = len(w["ds"])
        nin = [0] * n
        for i, d in enumerate(w["ds"]):
            if d != n and d != i:
                nin[d] += 1
        # two tributaries entering the main stem at the SAME cell have equal sort keys (uparea of their common
        # downstream cell): their numbering is a documented-free choice (np.argsort vs Numba's argsort differ)
        # depth up to 9: the deepest level whose codes fit the documented int32 result (finding F18b: the branch labels
        # pfaf0 + (i+1) * 10**depth wrapped in int32 from the third pit on at depth 9 - silently under the JIT)
        a = {"depth": rng.choice([1, 2, 1, 2, 3, 5, 8, 9]), "upa_min": rng.choice([0.0, 2.0, None]), "ambiguous": max(nin) >= 3}
        if rng.random() < 0.5:
            a["upa_q"], a["upa_min"] = upa_threshold(rng, w)
        return a

    def call(W, a):
        if a["ambiguous"]:
            m, idxs = W.flw.subbasins_pfafstetter(depth=a["depth"], uparea=W.uparea_distinct(), upa_min=a["upa_min"])
            return ["pfafstetter-numbering-not-unique (3-way confluence)", m.shape, str(m.dtype), np.sort(idxs)]
        return W.flw.subbasins_pfafstetter(depth=a["depth"], uparea=W.uparea_distinct(), upa_min=a["upa_min"])
    return gen, call


@op("basin_outlets", classes=R, group="basins")
def _():
    return _noargs, lambda W, a: W.flw.basin_outlets(W.flw.basins())


@op("basin_bounds", classes=R, group="basins")
def _():
    return _noargs, lambda W, a: W.flw.basin_bounds()


@op("interbasin_mask", classes=R, group="basins")
def _():
    return (lambda rng, w: {"stream": rng.random() < 0.5},
            lambda W, a: W.flw.interbasin_mask(~W.arr("mask", bool), stream=W.arr("mask", bool) if a["stream"] else None))


@op("inflow_outflow_idxs", classes=R, group="basins")
def _():
    return _noargs, lambda W, a: (np.sort(W.flw.inflow_idxs(W.arr("mask", bool))), np.sort(W.flw.outflow_idxs(W.arr("mask", bool))))


@op("stream_distance", classes=R, group="dist")
def _():
    return (lambda rng, w: {"unit": rng.choice(["cell", "m"]), "mask": rng.random() < 0.5},
            lambda W, a: W.flw.stream_distance(mask=W.arr("mask", bool) if a["mask"] else None, unit=a["unit"]))


# keyword name of the sample map -> (field of the world, dtype)
_FEAT_MAPS = {"elv": ("elevf", np.float64), "cls": ("ints", np.int64), "riv": ("mask", bool), "upa": ("area_distinct", np.float64)}


def _feat_args(rng, w):
    """user coordinate rasters xs / ys (raster shaped or flat float64: a point inside every cell that is not the cell
    centre, e.g. sub-grid river coordinates) and extra keyword maps sampled at the first cell of every feature"""
    return {"coords": rng.choice([None, None, "raster", "raster", "flat"]),
            "maps": sorted(rng.sample(sorted(_FEAT_MAPS), rng.choice([0, 0, 1, 2])))}


def _feat_kwargs(W, a):
    kw = {}
    xs = ys = None
    if a.get("coords"):
        ncol = W.shape[1]
        xs = [100.0 + i % ncol + (W.w["elev"][i] % 7 + 1) / 8.0 for i in range(W.n)]
        ys = [50.0 - i // ncol - (W.w["ints"][i] + 4) / 16.0 for i in range(W.n)]
        if a["coords"] == "flat":
            kw["xs"], kw["ys"] = np.array(xs, dtype=np.float64), np.array(ys, dtype=np.float64)
        else:
            kw["xs"], kw["ys"] = W.arr(xs, np.float64), W.arr(ys, np.float64)
    maps = {k: W.arr(*_FEAT_MAPS[k]) for k in a.get("maps", [])}
    kw.update(maps)
    return kw, xs, ys, maps


def _feats_checked(W, feats, xs, ys, maps, what):
    """features with user coordinates: every line starts at the coordinates of its `idx` cell and ends at those of its
    `idx_ds` cell; every extra map is sampled at the `idx` cell"""
    for ft in feats:
        p, c = ft["properties"], ft["geometry"]["coordinates"]
        i, j = int(p["idx"]), int(p["idx_ds"])
        if xs is not None and (tuple(map(float, c[0])) != (xs[i], ys[i]) or tuple(map(float, c[-1])) != (xs[j], ys[j])):
            raise OracleMismatch(f"{what}: feature idx={i} idx_ds={j} runs from {tuple(c[0])} to {tuple(c[-1])}; xs / ys at these "
                                 f"cells are {(xs[i], ys[i])} and {(xs[j], ys[j])}")
        for k, v in maps.items():
            if canon(p[k]) != canon(v.flat[i]):
                raise OracleMismatch(f"{what}: feature idx={i}: property {k} = {p[k]!r}, the map holds {v.flat[i]!r} there")
    return feats_canon(feats)


@op("vectorize", classes=R, group="vector", variants=2)
def _():
    def call(W, a):
        kw, xs, ys, maps = _feat_kwargs(W, a)
        feats = W.flw.vectorize(mask=W.arr("mask", bool) if a["mask"] else None, direction=a["direction"], **kw)
        return _feats_checked(W, feats, xs, ys, maps, "vectorize")
    return (lambda rng, w: dict({"mask": rng.random() < 0.4, "direction": rng.choice(["down", "up"])}, **_feat_args(rng, w)), call)


@op("streams", classes=R, group="vector", variants=4)
def _():
    def call(W, a):
        kw = dict(min_sto=a["min_sto"], max_len=a["max_len"])
        if a["strord"]:
            kw["strord"] = W.flw.stream_order()
        if a["idxs_out"]:
            kw["idxs_out"] = np.array(W.w["valid"][:3], dtype=W.flw.idxs_ds.dtype)
            kw["direction"] = a["direction"]
        kw2, xs, ys, maps = _feat_kwargs(W, a)
        kw.update(kw2)
        return _feats_checked(W, W.flw.streams(**kw), xs, ys, maps, "streams")
    return (lambda rng, w: dict({"min_sto": rng.choice([1, 2]), "max_len": rng.choice([0, 1, 2, 3, 4, 5, 7]), "strord": rng.random() < 0.3,
                                 "idxs_out": rng.random() < 0.25, "direction": rng.choice(["up", "down"])}, **_feat_args(rng, w)), call)


@op("upscale", classes=R, group="upscale", variants=5)
def _():
    def call(W, a):
        if W.shape[0] * W.shape[1] < 4 or -(-W.shape[0] // a["s"]) * -(-W.shape[1] // a["s"]) < 2:
            return "skipped-too-small"
        up = W.uparea_distinct() if a["own"] else None
        kw = {"r_ratio": a["r_ratio"]} if a.get("r_ratio") is not None and a["method"] in ("ihu", "eam") else {}
        flw1, idxs_out = W.flw.upscale(a["s"], method=a["method"], uparea=up, **kw)
        err = W.flw.upscale_error(flw1, idxs_out)
        return flw1.idxs_ds, idxs_out, err, flw1.shape
    return (lambda rng, w: {"s": rng.choice([1, 2, 2, 3]), "method": rng.choice(["ihu", "eam_plus", "eam", "dmm"]),
                            "own": rng.random() < 0.7, "r_ratio": rng.choice([None, None, 1.5, 1.0, 0.3])}, call)


@op("ucat", classes=R, group="subgrid", variants=2)
def _():
    def call(W, a):
        # own = an upstream area raster of the caller; otherwise the default (uparea=None: the object's own
        # upstream area) - the outlets then feed the unit catchment map / area / volume like any others
        up = W.uparea_distinct() if a.get("own", True) else None
        idxs_out = W.flw.ucat_outlets(a["s"], uparea=up, method=a["method"])
        m, are = W.flw.ucat_area(idxs_out, unit=a["unit"])
        hand = W.flw.hand(W.arr("mask", bool), W.arr("elevf", np.float32))
        m2, vol = W.flw.ucat_volume(idxs_out, hand)
        return idxs_out, m, are, vol
    return (lambda rng, w: {"s": rng.choice([1, 2, 3]), "method": rng.choice(["eam_plus", "dmm"]),
                            "unit": rng.choice(["cell", "m2", "km2"]), "own": rng.random() < 0.5}, call)


@op("subgrid_riv", classes=R, group="subgrid", variants=2)
def _():
    def call(W, a):
        up = W.uparea_distinct()
        idxs_out = W.flw.ucat_outlets(a["s"], uparea=up if a.get("own", True) else None, method=a.get("method", "eam_plus")) if a["outs"] else None
        if idxs_out is not None and a.get("drop"):
            # unit catchments without an outlet pixel (as ucat_outlets reports them for empty cells): missing value
            idxs_out = idxs_out.copy()
            idxs_out.flat[a["drop"] % idxs_out.size] = W.flw._mv
        msk = up >= 2 if a["mask"] else None
        wts = None
        if a.get("weights"):
            wts = np.ascontiguousarray(np.where(W.arr("elev", np.int64) % 3 != 0, 0.0, W.arr("area_distinct", np.float64)))
        rl = W.flw.subgrid_rivlen(idxs_out, mask=msk, direction=a["direction"], unit=a["unit"])
        ra = W.flw.subgrid_rivavg(idxs_out, W.arr("elevf", np.float64), weights=wts, direction=a["direction"], mask=msk)
        rm = W.flw.subgrid_rivmed(idxs_out, W.arr("elevf", np.float64), direction=a["direction"], mask=msk)
        rs = W.flw.subgrid_rivslp(idxs_out, W.arr("elevf", np.float64), length=a["length"], direction=a["sdir"],
                                  method=a["smethod"], mask=msk)
        return rl, ra, rm, rs
    return (lambda rng, w: {"s": rng.choice([1, 2, 2, 3, 3]), "own": rng.random() < 0.5, "method": rng.choice(["eam_plus", "dmm"]),
                            "outs": rng.random() < 0.8, "mask": rng.random() < 0.4,
                            "drop": rng.choice([0, 0, 1, 2, 3, 5]), "weights": rng.random() < 0.4,
                            "direction": rng.choice(["up", "down"]), "unit": rng.choice(["cell", "m"]),
                            "length": rng.choice([2, 5, 1000]), "sdir": rng.choice(["both", "up", "down"]),
                            "smethod": rng.choice(["mean", "lstsq"])}, call)


@op("dem_dig_d4", classes=R, group="dem", variants=2)
def _():
    def call(W, a):
        elv = W.arr("elevf", np.float32)
        if a.get("voids"):   # elevation voids (nodata value) scattered over the network: D4 neighbours without data
            elv = np.ascontiguousarray(np.where(W.arr("holes", np.int64) == -9999, np.float32(-9999.0), elv))
        return W.flw.dem_dig_d4(elv, rivmsk=W.arr("mask", bool) if a["rivmsk"] else None)
    return (lambda rng, w: {"rivmsk": rng.random() < 0.5, "voids": rng.random() < 0.5}, call)


@op("hand_floodplains", classes=R, group="dem")
def _():
    def gen(rng, w):
        a = {"upa_min": rng.choice([2, 5]), "b": rng.choice([0.3, 0.5, 1.0])}
        if rng.random() < 0.5:
            a["upa_q"], a["upa_min"] = upa_threshold(rng, w)
        return a
    return (gen,
            lambda W, a: (W.flw.hand(W.arr("mask", bool), W.arr("elevf", np.float32)),
                          W.flw.floodplains(W.arr("elevf", np.float32), uparea=W.uparea_distinct(), upa_min=a["upa_min"], b=a["b"])))


# ---- module level ------------------------------------------------------------------------------
@op("from_dem", classes=R, group="fill")
def _():
    def call(W, a):
        import pyflwdir
        from pyflwdir import dem
        e = W.arr(a["kind"], np.dtype(a["dt"])).copy()
        if a["nodata_cells"]:
            e[W.arr("mask", bool) & (np.arange(e.size).reshape(e.shape) % 3 == 0)] = -9999
        filled, d8 = dem.fill_depressions(e, outlets=a["outlets"], connectivity=a["conn"], max_depth=a["max_depth"],
                                          nodata=-9999)
        out = [filled, d8]
        if np.sum(d8 != 247) > 1:
            f = pyflwdir.from_dem(e, outlets=a["outlets"], max_depth=a["max_depth"], nodata=-9999)
            out.append(f.idxs_ds.astype(np.int64))
        return tuple(out)
    return (lambda rng, w: {"kind": rng.choice(["elev", "elevf"]), "dt": rng.choice(["float32", "float64", "int32"]),
                            "outlets": rng.choice(["edge", "min"]), "conn": rng.choice([4, 8]),
                            "max_depth": rng.choice([-1.0, -1.0, 0.0, 1.0, 2.5]), "nodata_cells": rng.random() < 0.4}, call)


@op("fill_depressions_idxs_pit", classes=R, group="fill")
def _():
    def call(W, a):
        from pyflwdir import dem
        return dem.fill_depressions(W.arr("elevf", np.float32), idxs_pit=np.array(W.w["valid"][:2]), connectivity=a["conn"])
    return (lambda rng, w: {"conn": rng.choice([4, 8])}, call)


@op("slope", classes=R, group="fill")
def _():
    def call(W, a):
        from pyflwdir import dem
        return dem.slope(W.arr("elevf", np.float32), nodata=-9999.0, latlon=W.w["latlon"], transform=W.transform)
    return _noargs, call


@op("spread2d", classes=R, group="spread")
def _():
    def call(W, a):
        from pyflwdir import gis_utils
        obs = np.where(W.arr("mask", bool), W.arr("elev", np.int32) + 1, 0).astype(np.int32)
        kw = {}
        if a["msk"]:
            kw["msk"] = np.array(W.w["holes"]).reshape(W.shape) != 1
        if a["frc"]:
            kw["frc"] = (W.arr("elev", np.float32) % 3) + 1
        return gis_utils.spread2d(obs, nodata=0, latlon=W.w["latlon"], transform=W.transform, **kw)
    return (lambda rng, w: {"msk": rng.random() < 0.4, "frc": rng.random() < 0.4}, call)


@op("regions", classes=R, group="spread")
def _():
    def call(W, a):
        from pyflwdir import regions
        bas = W.flw.basins().astype(np.int32)
        lbs = np.unique(bas[bas > 0])
        out = [regions.region_sum(W.arr("elevf", np.float64), bas), regions.region_area(bas, W.transform, W.w["latlon"])]
        if lbs.size >= 1:
            out.append(regions.region_bounds(bas, W.transform))
        if lbs.size >= 2:
            out.append(regions.region_dissolve(bas, labels=lbs[:1], transform=W.transform, latlon=W.w["latlon"]))
        return tuple(out)
    return _noargs, call


@op("gis_utils", classes=R, group="coords")
def _():
    def call(W, a):
        from pyflwdir import gis_utils as g
        t = W.transform
        lon, lat = g.affine_to_coords(t, W.shape)
        out = [g.array_bounds(W.shape[0], W.shape[1], t), lon, lat,
               g.area_grid(t, W.shape, W.w["latlon"], unit=a["unit"]),
               g.get_edge(W.arr("mask", bool)),
               g.idxs_to_coords(np.arange(W.n), t, W.shape, offset=a["offset"])]
        if W.n >= 2:
            out.append(g.distance(0, W.n - 1, W.shape[1], W.w["latlon"], tuple(t)[:6]))
        return tuple(out)
    return (lambda rng, w: {"unit": rng.choice(["m2", "ha", "km2", "cell"]), "offset": rng.choice(["center", "ul", "lr"])}, call)


@op("conversion", classes=R, group="convert")
def _():
    def call(W, a):
        from pyflwdir.core_conversion import d8_to_ldd, ldd_to_d8
        d8 = np.array(ds_to_d8(W.w["ds"], W.shape), dtype=np.uint8).reshape(W.shape)
        ldd = d8_to_ldd(d8)
        return ldd, ldd_to_d8(ldd)
    return _noargs, call


# ---------------------------------------------------------------------------------------------
# ageing: run catalogue queries on an EXISTING object (any harness' object), so that what a property
# harness observes comes from an object with warm / argument-dependent caches (C12: unobservable)
# ---------------------------------------------------------------------------------------------
MUTATING_OPS = {"order_cells", "add_pits", "repair_loops", "set_transform", "derived_objects"}
_HEAVY = {"upscale", "ucat", "subgrid_riv", "from_dem", "fill_depressions_idxs_pit", "slope", "spread2d", "regions",
          "gis_utils", "conversion", "from_array", "k_path_snap", "k_distance_slope_spread", "k_subgrid_slope", "k_subgrid_stats",
          "subbasins_pfafstetter", "dem_dig_d4", "wide_raster_to_array"}   # (the last one does not touch the object)


class AdhocWorld(World):
    """a World around an object somebody else built (same interface for the op callers)"""

    def __init__(self, flw, rng):
        from common import canon_idx
        n = int(flw.size)
        ds = canon_idx(flw.idxs_ds, n)
        shp = getattr(flw, "shape", n)
        shape = tuple(int(x) for x in shp) if hasattr(shp, "__len__") else (n,)
        raster = len(shape) == 2
        valid = [i for i in range(n) if ds[i] != n]
        loc = list(range(1, n + 1))
        rng.shuffle(loc)
        self.w = {"cls": "raster" if raster else "vector", "ds": ds, "shape": list(shape), "dtype": flw.idxs_ds.dtype.name,
                  "latlon": bool(getattr(flw, "latlon", False)), "cache": bool(getattr(flw, "cache", True)),
                  "noncontig": rng.choice([None, None, None, "strided", "fortran", "transposed"]),
                  "area_distinct": [float(x) + 0.001 * i for i, x in enumerate(loc)],
                  "elev": [rng.randint(0, 30) for _ in range(n)], "elevf": [rng.randint(0, 120) / 4 for _ in range(n)],
                  "ints": [rng.randint(-3, 9) for _ in range(n)], "mask": [bool(rng.random() < 0.35) for _ in range(n)],
                  "holes": [(-9999 if rng.random() < 0.5 else rng.randint(1, 6)) for _ in range(n)], "valid": valid}
        self.n = n
        self.dtype = flw.idxs_ds.dtype.type
        self.shape = shape
        self.transform = getattr(flw, "transform", None)
        self.flw = flw
        self.mv = int(flw._mv)


def age(flw, rng, focus=(), k=None, loopfree=True, heavy=False):
    """run `k` (default 1..4) random non-mutating catalogue operations with random documented-domain arguments on
    `flw`; operations named in `focus` are preferred (same-method earlier calls with other arguments). Results and
    exceptions are discarded: ageing never decides anything. Returns the list of (op, args) that ran."""
    W = AdhocWorld(flw, rng)
    if not W.w["valid"]:
        return []
    cls = W.w["cls"]
    names = [nm for nm, o in OPS.items() if cls in o["classes"] and nm not in MUTATING_OPS and o["group"] != "kernel"
             and (heavy or nm not in _HEAVY or nm in focus) and (loopfree or nm in LOOP_SAFE)]
    foc = [nm for nm in focus if nm in names]
    ran = []
    for _ in range(k if k is not None else rng.randint(1, 4)):
        nm = rng.choice(foc) if foc and rng.random() < 0.6 else rng.choice(names)
        try:
            a = OPS[nm]["gen"](rng, W.w)
            ran.append((nm, a))
            OPS[nm]["call"](W, a)
        except Exception:  # noqa: BLE001
            pass
    return ran


# ---- documented-error cases (C13): (name, call, expected exception class name) -----------------
def border_cases(W):
    """index / xy=... arguments with points exactly ON the two raster borders opposite the transform's origin (xmax /
    ymin of a north-up raster; the corresponding borders of south-up and mirrored transforms) and on the far corner:
    they lie in no cell (cells are half-open boxes, closed towards the origin) -> the documented IndexError.
    Grids with exact arithmetic only (`exact_grid`): the object's own transform when it is one, and four orientations
    of a dyadic transform drawn from the world."""
    import random
    from affine import Affine
    from pyflwdir.pyflwdir import FlwdirRaster
    rng = random.Random(sum(W.w["elev"]) * 131 + W.n)
    nrow, ncol = W.shape
    grids = []
    if exact_grid(W.transform):
        grids.append(("own transform", W.flw))
    base = Affine(rng.choice([0.25, 0.5, 1, 2, 4]), 0, rng.choice([0, 10, -3.5]), 0, -rng.choice([0.25, 0.5, 1, 2, 4]), rng.choice([0, 50, -7.25]))
    for flip, nm in (("", "north-up"), ("x", "north-up, x reversed"), ("y", "south-up"), ("xy", "south-up, x reversed")):
        t = flipped(base, W.shape, flip)
        grids.append((f"{nm} {tuple(t)[:6]}", FlwdirRaster(np.array(W.flw.idxs_ds).copy(), W.shape, "d8", transform=t, latlon=W.w["latlon"])))
    cases = []
    for nm, g in grids:
        t = g.transform
        if cell_of(t, W.shape, t.c, t.f) != 0:
            raise RuntimeError("harness: origin corner is not in cell 0")
        r, c = rng.randrange(nrow), rng.randrange(ncol)
        xfar, yfar = t.c + t.a * ncol, t.f + t.e * nrow
        xin, yin = t.c + t.a * (c + 0.5), t.f + t.e * (r + 0.5)
        pts = {"far x border": (xfar, yin), "far y border": (xin, yfar), "far corner": (xfar, yfar),
               "far x border, first row edge": (xfar, t.f), "far y border, first column edge": (t.c, yfar)}
        for what, (x, y) in pts.items():
            if cell_of(t, W.shape, x, y) is not None:
                raise RuntimeError("harness: border point inside a cell")
            cases.append((f"index(point on the {what}; {nm})", lambda g=g, x=x, y=y: g.index(np.array([x]), np.array([y])), "IndexError"))
        cases.append((f"index(cell centre and a point on the far x border; {nm})",
                      lambda g=g, xs=(xin, xfar), ys=(yin, yin): g.index(np.array(xs), np.array(ys)), "IndexError"))
        cases.append((f"index(scalar point on the far y border; {nm})", lambda g=g, x=xin, y=yfar: g.index(x, y), "IndexError"))
        y0 = t.f + t.e * 0.5   # first row: one cell further is the first cell of the next row
        cases.append((f"snap(xy on the far x border, first row; {nm})", lambda g=g, x=xfar, y=y0: g.snap(xy=(np.array([x]), np.array([y]))), "IndexError"))
        cases.append((f"path(xy on the far x border, first row; {nm})", lambda g=g, x=xfar, y=y0: g.path(xy=(np.array([x]), np.array([y]))), "IndexError"))
        cases.append((f"basins(xy on the far y border; {nm})", lambda g=g, x=xin, y=yfar: g.basins(xy=(np.array([x]), np.array([y]))), "IndexError"))
    return cases


def error_cases(W):
    import pyflwdir
    from pyflwdir import dem, gis_utils as g
    f = W.flw
    n = W.n
    cases = [
        ("order_cells(method='???')", lambda: f.order_cells("???"), "ValueError"),
        ("stream_order(type='foo')", lambda: f.stream_order(type="foo"), "ValueError"),
        ("accuflux(direction='sideways')", lambda: f.accuflux(W.arr("ints", np.int64), direction="sideways"), "ValueError"),
        ("fillnodata(direction='x')", lambda: f.fillnodata(W.arr("holes", np.int64), -9999, direction="x"), "ValueError"),
        ("accuflux(wrong size)", lambda: f.accuflux(np.ones(n + 1)), "ValueError"),
        ("path(direction='x')", lambda: f.path(idxs=np.array([W.w["valid"][0]]), direction="x"), "ValueError"),
        ("river_depth(zs without rivdst, no rivslp)", lambda: f.river_depth(W.arr("area_distinct", np.float64), W.arr("elev", np.float64) + 1, zs=W.arr("elevf", np.float64)), "ValueError"),
        ("river_depth(no slope information)", lambda: f.river_depth(W.arr("area_distinct", np.float64), W.arr("elev", np.float64) + 1), "ValueError"),
        ("river_depth(gvf without zs/rivdst)", lambda: f.river_depth(W.arr("area_distinct", np.float64), W.arr("elev", np.float64) + 1, rivslp=W.arr("elevf", np.float64) / 1000 + 1e-4, method="gvf"), "ValueError"),
        ("river_depth(method='x')", lambda: f.river_depth(W.arr("area_distinct", np.float64), W.arr("elev", np.float64) + 1, method="x"), "ValueError"),
    ]
    if W.w["cls"] == "raster":
        cases += [
            ("upstream_area(unit='acre')", lambda: f.upstream_area(unit="acre"), "ValueError"),
            ("path(unit='km')", lambda: f.path(idxs=np.array([0]), unit="km"), "ValueError"),
            ("path(idxs and xy)", lambda: f.path(idxs=np.array([0]), xy=(np.array([0.5]), np.array([-0.5]))), "ValueError"),
            ("path(neither idxs nor xy)", lambda: f.path(), "ValueError"),
            ("index(outside)", lambda: f.index(np.array([1e9]), np.array([1e9])), "IndexError"),
            ("xy(outside)", lambda: f.xy(np.array([n + 5])), "IndexError"),
            ("basins(ids with zero)", lambda: f.basins(idxs=np.array(W.w["valid"][:1]), ids=np.array([0])), "ValueError"),
            ("basins(ids size)", lambda: f.basins(idxs=np.array(W.w["valid"][:1]), ids=np.array([1, 2])), "ValueError"),
            ("to_array('unknown')", lambda: f.to_array("unknown"), "ValueError"),
            ("upscale(method='x')", lambda: f.upscale(2, method="x"), "ValueError"),
            ("ucat_outlets(method='x')", lambda: f.ucat_outlets(2, method="x"), "ValueError"),
            ("ucat_area(unit='x')", lambda: f.ucat_area(np.array([0]), unit="x"), "ValueError"),
            ("subgrid_rivlen(direction='x')", lambda: f.subgrid_rivlen(None, direction="x"), "ValueError"),
            ("subgrid_rivslp(direction='x')", lambda: f.subgrid_rivslp(None, W.arr("elevf", np.float64), direction="x"), "ValueError"),
            ("stream_distance(unit='x')", lambda: f.stream_distance(unit="x"), "ValueError"),
            ("set_transform('bad')", lambda: f.set_transform(5), "ValueError"),
            ("from_array(1-D)", lambda: pyflwdir.from_array(np.zeros(4, dtype=np.uint8), ftype="d8"), "ValueError"),
            ("from_array(uninferable)", lambda: pyflwdir.from_array(np.arange(20)), "ValueError"),
            ("from_array(mask shape)", lambda: pyflwdir.from_array(np.zeros(W.shape, dtype=np.uint8), ftype="d8", mask=np.ones((1, 1))), "ValueError"),
            ("FlwdirRaster(bad ftype)", lambda: pyflwdir.FlwdirRaster(f.idxs_ds.copy(), W.shape, "d9"), "ValueError"),
            ("FlwdirRaster(bad shape)", lambda: pyflwdir.FlwdirRaster(f.idxs_ds.copy(), (W.shape[0] + 1, W.shape[1]), "d8"), "ValueError"),
            ("FlwdirRaster(1-D shape)", lambda: pyflwdir.FlwdirRaster(f.idxs_ds.copy(), (W.n,), "d8"), "ValueError"),
            ("FlwdirRaster(3-D shape)", lambda: pyflwdir.FlwdirRaster(f.idxs_ds.copy(), (1, W.shape[0], W.shape[1]), "d8"), "ValueError"),
            ("fill_depressions(connectivity=6)", lambda: dem.fill_depressions(W.arr("elevf", np.float32), connectivity=6), "ValueError"),
            ("area_grid(unit='x')", lambda: g.area_grid(W.transform, W.shape, unit="x"), "ValueError"),
            ("xy(offset='x')", lambda: g.xy(W.transform, 0, 0, offset="x"), "ValueError"),
            ("snap(unit='km')", lambda: f.snap(idxs=np.array([W.w["valid"][0]]), unit="km"), "ValueError"),
            ("snap(direction='x')", lambda: f.snap(idxs=np.array([W.w["valid"][0]]), direction="x"), "ValueError"),
            ("subgrid_rivlen(unit='x')", lambda: f.subgrid_rivlen(None, unit="x"), "ValueError"),
            ("subgrid_rivavg(direction='x')", lambda: f.subgrid_rivavg(None, W.arr("elevf", np.float64), direction="x"), "ValueError"),
            ("subgrid_rivmed(direction='x')", lambda: f.subgrid_rivmed(None, W.arr("elevf", np.float64), direction="x"), "ValueError"),
            ("upscale(nextxy network)", lambda: pyflwdir.FlwdirRaster(f.idxs_ds.copy(), W.shape, "nextxy").upscale(2), "ValueError"),
            ("from_array(invalid data for explicit ftype)", lambda: pyflwdir.from_array(np.full(W.shape, 3, dtype=np.uint8), ftype="d8"), "ValueError"),
            ("region_bounds(1-D regions)", lambda: __import__("pyflwdir").regions.region_bounds(np.ones(4, dtype=np.int32), W.transform), "ValueError"),
            ("region_slices(1-D)", lambda: __import__("pyflwdir").regions.region_slices(np.ones(4, dtype=np.int32)), "ValueError"),
            ("features(no xs/ys, no transform)", lambda: g.features([np.array([0, 1])], xs=None, ys=None), "ValueError"),
            ("core_nextxy.from_array(2-D array)", lambda: __import__("pyflwdir").core_nextxy.from_array(np.zeros((3, 3), dtype=np.int32)), "TypeError"),
            ("region_dissolve(no labels)", lambda: __import__("pyflwdir").regions.region_dissolve(f.basins().astype(np.int32)), "ValueError"),
        ]
        cases += border_cases(W)
    return cases


# ---- kernel level with a plain-tuple transform (what Numba can type even with affine >= 3) ---------
def _t6(W):
    return tuple(float(x) for x in tuple(W.transform)[:6])


@op("k_path_snap", classes=R, group="kernel")
def _():
    def call(W, a):
        from pyflwdir import core
        f = W.flw
        nxt = f.idxs_ds if a["direction"] == "down" else f.idxs_us_main
        kw = dict(ncol=W.shape[1], mask=W.arr("mask", bool).ravel() if a["mask"] else None, max_length=a["max_length"],
                  real_length=a["real"], latlon=W.w["latlon"], transform=_t6(W), mv=f._mv)
        idxs0 = np.array(a["idxs"], dtype=f.idxs_ds.dtype)
        p, d = core.path(idxs0, nxt, **kw)
        s, d2 = core.snap(idxs0, nxt, **kw)
        return [np.asarray(x) for x in p], d, s, d2
    return (lambda rng, w: {"idxs": [rng.choice(w["valid"]) for _ in range(2)], "direction": rng.choice(["up", "down"]),
                            "max_length": rng.choice([None, 1.0, 4.0]), "mask": rng.random() < 0.5, "real": rng.random() < 0.6}, call)


# Elevation rasters come as float32 / float64 and as NARROW integers (int16 SRTM / MERIT tiles and bathymetry, uint16 /
# uint8 / int8 relative heights). NumPy keeps scalar arithmetic on elements of such an array in the array's dtype, Numba
# promotes to int64: small integer expressions of a kernel (sums / differences of a few neighbours) can wrap around
# interpreted and not compiled. The DEMs drawn here have a relief of 30 units around a base level at 0, a quarter or a
# half of the dtype's range (positive and negative; unsigned: of the positive range): sums of 2 .. 4 elevations cross the
# dtype's limits. `wide`: the relief spans most of the dtype's range (differences of window sums leave the range too).
# (Found with this class: dem.slope kept its 3 x 3 window in the DEM's dtype - uint8 [[3, 5], [3, 5]] gave 44.5
# interpreted, 0.79 compiled; fixed in /repo 8b2e331.)
_DEM_DTS = ["float32", "float32", "float64", "int32", "int16", "int16", "int8", "int8", "uint8", "uint16"]
_DEM_LEVELS = ["low", "quarter", "quarter", "-quarter", "-quarter", "half", "-half"]


def dem_args(rng):
    dt = rng.choice(_DEM_DTS)
    a = {"dem": dt, "level": "low" if dt.startswith("float") else rng.choice(_DEM_LEVELS)}
    if not dt.startswith("float") and rng.random() < 0.25:
        a["wide"] = True
    return a


def narrow_dem(W, a):
    """the world's elevation field as a DEM of dtype a['dem'] around the base level a['level'] of that dtype"""
    dt = np.dtype(a.get("dem", "float32"))
    if dt.kind == "f":
        return W.arr("elevf", dt)
    info = np.iinfo(dt)
    lv = a.get("level", "low")
    base = {"low": 15, "quarter": (info.max + 1) // 4, "-quarter": info.min // 4, "half": (info.max + 1) // 2,
            "-half": info.min // 2}[lv]
    if info.min == 0 and lv.startswith("-"):   # unsigned: the levels of the positive range, approached from below
        base = {"-quarter": (info.max + 1) // 4 - 16, "-half": (info.max + 1) // 2 - 16}[lv]
    k = max(info.max // 40, 1) if a.get("wide") else 1
    vals = [min(max(base + (e - 15) * k, info.min), info.max) for e in W.w["elev"]]
    return W.arr(vals, dt)


def features(t):
    """input classes of a task (op, args, world) for the feature histogram of the worker based checks
    (`for k in catalogue.features(t): ctx.count("feature:" + k)`)"""
    a, out = t.get("args", {}), []
    if "dem" in a:
        out.append("dem-dtype:" + a["dem"])
        if not a["dem"].startswith("float"):
            out.append("dem-level:" + a.get("level", "low") + (":wide-relief" if a.get("wide") else ""))
    if "data_dt" in a:
        out.append("segment-data-dtype:" + a["data_dt"])
    if a.get("idx_dtypes"):
        out.append(f"base-class-{t.get('op')}-on-all-index-dtypes:{a.get('direction')}")
    if "upa_q" in a or "area_q" in a:
        out.append("threshold-from-the-world's-own-upstream-areas")
    return out


@op("k_distance_slope_spread", classes=R, group="kernel", variants=3)
def _():
    def call(W, a):
        from pyflwdir import gis_utils as g, dem, streams
        t = _t6(W)
        out = [g.distance(0, W.n - 1, W.shape[1], W.w["latlon"], t),
               dem.slope(narrow_dem(W, a), -9999.0, W.w["latlon"], t),
               g.spread2d(np.where(W.arr("mask", bool), 1, 0).astype(np.int32), None, 0, None, W.w["latlon"], t),
               streams.upstream_area(W.flw.idxs_ds, W.flw.idxs_seq, W.shape[1], W.w["latlon"], t),
               streams.stream_distance(W.flw.idxs_ds, W.flw.idxs_seq, W.shape[1], None, True, W.w["latlon"], t)]
        return tuple(out)
    return (lambda rng, w: dem_args(rng)), call


@op("k_subgrid_slope", classes=R, group="kernel", variants=2)
def _():
    def call(W, a):
        # the slope kernels behind subgrid_rivslp with the kind of distance field large basins have: float32
        # metres, hundreds of km from the outlet (the public method cannot be compiled at all with affine 3, F07)
        from pyflwdir import subgrid
        f = W.flw
        up = W.uparea_distinct()
        outs = np.asarray(f.ucat_outlets(a["s"], uparea=up)).ravel()
        dist = (np.asarray(f.stream_distance(unit="cell"), dtype=np.float64).ravel() * a["cell"] + a["offset"]).astype(np.float32)
        elv = W.arr("elevf", np.float32).ravel()
        nxt = f.idxs_ds if a["direction"] == "down" else f.idxs_us_main
        s1 = subgrid.segment_slope(outs, nxt, elv, dist, None, -9999.0, a["lstsq"], f._mv)
        s2 = subgrid.fixed_length_slope(outs, f.idxs_ds, f.idxs_us_main, elv, dist, a["cell"] * a["length"], None, a["lstsq"], f._mv)
        return s1, s2
    return (lambda rng, w: {"s": rng.choice([2, 3]), "cell": rng.choice([1.0, 30.0, 92.5, 1000.0]), "offset": rng.choice([0.0, 0.0, 1.5e3, 2.5e5, 1.2e6]),
                            "direction": rng.choice(["up", "down"]), "lstsq": rng.random() < 0.7, "length": rng.choice([2, 4, 100])}, call)


@op("k_subgrid_stats", classes=R, group="kernel", variants=3)
def _():
    def call(W, a):
        # the segment statistics behind subgrid_rivavg / subgrid_rivmed on maps of the dtypes rasters come in (the
        # public methods hand the user's map through unchanged; they cannot be compiled next to subgrid_rivlen with
        # affine 3, F07). The results carry their dtype (canon strict_dtype): it has to be the same in both modes.
        # (Found with float64 data x float32 weights: arithmetics._average summed the weights in float32 when
        # interpreted, in float64 when compiled; fixed in /repo 888d3fc.)
        from pyflwdir import subgrid
        f = W.flw
        up = W.uparea_distinct()
        outs = np.asarray(f.ucat_outlets(a["s"], uparea=up)).ravel() if a["outs"] else np.arange(W.n, dtype=np.intp)
        dt = np.dtype(a["data_dt"])
        data = np.ascontiguousarray(W.arr("elevf" if dt.kind == "f" else "elev", dt)).ravel()
        if a["voids"] and dt.kind == "f":   # missing values inside the segments (ignored by both statistics)
            data = np.where(W.arr("holes", np.int64).ravel() == -9999, dt.type(-9999.0), data)
        wts = np.ascontiguousarray(W.arr("area_distinct", np.dtype(a["wts_dt"]))).ravel()
        msk = np.ascontiguousarray(up >= 2).ravel() if a["mask"] else None
        nxt = f.idxs_ds if a["direction"] == "down" else f.idxs_us_main
        avg = subgrid.segment_average(outs, nxt, data, wts, msk, -9999.0, f._mv)
        med = subgrid.segment_median(outs, nxt, data, msk, -9999.0, f._mv)
        return avg, med
    def gen(rng, w):
        a = {"s": rng.choice([1, 2, 3]), "outs": rng.random() < 0.7, "direction": rng.choice(["up", "down"]),
             "data_dt": rng.choice(["float32", "float32", "float64", "int32", "int64"]),
             "wts_dt": rng.choice(["float64", "float32"]), "voids": rng.random() < 0.4, "mask": rng.random() < 0.4}
        return a
    return gen, call


# ---- rivers.py wrappers ---------------------------------------------------------------------------
@op("classify_estuaries", group="rivers")
def _():
    def call(W, a):
        rivdst = W.arr("elev", np.float64) if a["own_dst"] else None   # integer-valued: equal distances occur
        return W.flw.classify_estuaries(W.arr("elevf", np.float64) - a["shift"], W.arr("area_distinct", np.float64),
                                        rivdst=rivdst, min_convergence=a["minc"], max_elevtn=a["maxz"])
    return (lambda rng, w: {"own_dst": rng.random() < 0.7, "shift": rng.choice([0, 10, 40]), "minc": rng.choice([1e-2, 0.5, 2.0]),
                            "maxz": rng.choice([0, 5, 30])}, call)


@op("river_depth", group="rivers")
def _():
    def call(W, a):
        kw = dict(qbankfull=W.arr("area_distinct", np.float64) * 3.0, rivwth=W.arr("elev", np.float64) + 5.0,
                  manning=a["manning"], min_rivdph=a["min_rivdph"])
        if a["slp"]:
            slp = (W.arr("elevf", np.float64) + 1.0) / 1000.0
            if a["flat"]:  # flat / adverse reaches: slopes at and below the documented minimum slope (clipped by the code)
                e = W.arr("elev", np.int64)
                slp = np.where(e % 3 == 0, 0.0, np.where(e % 3 == 1, 1e-7, slp))
            kw["rivslp"] = np.ascontiguousarray(slp)
        else:
            kw["zs"] = W.arr("elevf", np.float64)
            kw["rivdst"] = W.arr("elev", np.float64) * 10.0
        return W.flw.river_depth(**kw)
    return (lambda rng, w: {"slp": rng.random() < 0.5, "flat": rng.random() < 0.5, "manning": rng.choice([0.03, 0.05]), "min_rivdph": rng.choice([1, 0.5])}, call)


# ---- API surface tie -------------------------------------------------------------------------------
# every public name of the library -> the catalogue op(s) that exercise it, or a waiver with a reason.
# `api_surface_gaps()` recomputes the public surface from the working tree; a public callable that is
# neither covered nor waived breaks the correspondence of C07 / C13 / C16 (reported as a model failure).
COVERED_BY = {
    # methods / properties of Flwdir and FlwdirRaster
    "accuflux": "accuflux", "add_pits": "add_pits", "area": "area", "basin_bounds": "basin_bounds",
    "basin_outlets": "basin_outlets", "basins": "basins", "bounds": "bounds", "classify_estuaries": "classify_estuaries",
    "dem_adjust": "dem_adjust", "dem_dig_d4": "dem_dig_d4", "distnc": "distnc", "downstream": "downstream",
    "dump": "dump_load", "load": "dump_load", "extent": "extent", "fillnodata": "fillnodata",
    "floodplains": "hand_floodplains", "hand": "hand_floodplains", "geofeatures": "vectorize", "idxs_ds": "to_array",
    "idxs_pit": "idxs_pit", "idxs_seq": "idxs_seq", "idxs_us_main": "idxs_us_main", "index": "index_xy", "xy": "index_xy",
    "inflow_idxs": "inflow_outflow_idxs", "outflow_idxs": "inflow_outflow_idxs", "interbasin_mask": "interbasin_mask",
    "isvalid": "isvalid", "main_upstream": "main_upstream", "mask": "mask", "moving_average": "moving_average",
    "moving_median": "moving_median", "n_upstream": "n_upstream", "ncells": "ncells", "nnodes": "nnodes",
    "order_cells": "order_cells", "path": "path", "rank": "rank", "repair_loops": "repair_loops",
    "river_depth": "river_depth", "set_transform": "set_transform", "smooth_rivlen": "smooth_rivlen", "snap": "snap",
    "stream_distance": "stream_distance", "stream_order": "stream_order", "streams": "streams",
    "subbasins_area": "subbasins_area", "subbasins_pfafstetter": "subbasins_pfafstetter",
    "subbasins_streamorder": "subbasins_streamorder", "subgrid_rivavg": "subgrid_riv", "subgrid_rivlen": "subgrid_riv",
    "subgrid_rivmed": "subgrid_riv", "subgrid_rivslp": "subgrid_riv", "to_array": "to_array", "ucat_area": "ucat",
    "ucat_outlets": "ucat", "ucat_volume": "ucat", "upscale": "upscale", "upscale_error": "upscale",
    "upstream_area": "upstream_area", "upstream_sum": "upstream_sum", "vectorize": "vectorize",
    # module level
    "from_array": "from_array", "from_dem": "from_dem", "fill_depressions": "from_dem", "slope": "slope",
    "spread2d": "spread2d", "get_edge": "gis_utils", "array_bounds": "gis_utils", "affine_to_coords": "gis_utils",
    "idxs_to_coords": "gis_utils", "region_bounds": "regions", "region_sum": "regions", "region_area": "regions",
    "d8_to_ldd": "conversion", "ldd_to_d8": "conversion",
}
WAIVED = {
    "read_nextxy": "file I/O (np.fromfile); not modelled, see DESIGN section 7",
    "from_dataframe": "needs pandas (not a dependency of the checks); get_loc_idx is covered by the C03 extension when present",
    "transform_from_origin": "pure Affine constructor, covered by C17 (c17_transform)",
    "transform_from_bounds": "pure Affine constructor, covered by C17 (c17_transform)",
    "xy": "covered", "rowcol": "covered by C17 (c17_rowcol) and index_xy",
    "reggrid_area": "covered by C17 (c17_area) through area_grid", "reggrid_dx": "thin wrapper of degree_metres_x, C17",
    "reggrid_dy": "thin wrapper of degree_metres_y, C17", "region_slices": "scipy.ndimage.find_objects wrapper, used by region_bounds",
    "Flwdir": "class", "FlwdirRaster": "class",
}


def api_surface_gaps():
    import inspect
    import pyflwdir
    from pyflwdir.pyflwdir import FlwdirRaster
    import pyflwdir.dem, pyflwdir.gis_utils, pyflwdir.regions, pyflwdir.core_conversion, pyflwdir.core_nextxy  # noqa: E401,F401
    names = {n for n, _ in inspect.getmembers(FlwdirRaster) if not n.startswith("_")}
    for m in (pyflwdir.dem, pyflwdir.gis_utils, pyflwdir.regions, pyflwdir.core_conversion, pyflwdir.core_nextxy,
              pyflwdir.flwdir, pyflwdir.pyflwdir):
        names |= set(getattr(m, "__all__", []) or [])
    gaps = sorted(n for n in names if n not in COVERED_BY and n not in WAIVED)
    dangling = sorted(n for n, o in COVERED_BY.items() if o not in OPS)
    return gaps, dangling
