"""Mutation analysis of the checks (development tool, not a registered check).

    mutate.py gen [--per-file N] [--seed S] > mutants.jsonl
    mutate.py run <mutants.jsonl> <out.jsonl> --slot K [--from i --to j]

`gen` enumerates first-order mutants of /repo/pyflwdir (comparison boundary shifts, == <-> !=, + <-> -, and <-> or,
dropped `not`, min <-> max, small integer constants) with exact source positions. `run` applies one mutant at a time to a
scratch copy of the package (never to /repo), runs the repository's test suite (a mutant the tests kill is not a
"realistic change that passes the tests" and is skipped), then the quick checks of the properties whose source
fingerprints the mutant touches (own check copy /tmp/vc/<slot>, PYFLWDIR_REPO=<scratch>), stopping at the first check
that reports a VIOLATION. Survivors (tests pass, no check objects) are the interesting output: either equivalent
mutants / changes no property speaks about, or blind spots of the generators.
"""
import ast
import json
import os
import random
import shutil
import subprocess
import sys
import time

REPO = "/repo"
PKG = os.path.join(REPO, "pyflwdir")
SKIP_FUNCS = {"__str__", "__repr__"}
CMP = {ast.Lt: ("<", "<="), ast.LtE: ("<=", "<"), ast.Gt: (">", ">="), ast.GtE: (">=", ">"), ast.Eq: ("==", "!="), ast.NotEq: ("!=", "==")}
BIN = {ast.Add: ("+", "-"), ast.Sub: ("-", "+")}
ORDER = ["C01", "C02", "C03", "C04", "C05", "C06", "C08", "C09", "C10", "C11", "C14", "C15", "C17", "C18", "C19", "C20",
         "C13", "C16", "C12", "C07"]


def enum_file(path):
    src = open(path).read()
    lines = src.split("\n")
    tree = ast.parse(src)
    out = []
    parents = {}
    for node in ast.walk(tree):
        for ch in ast.iter_child_nodes(node):
            parents[ch] = node

    def func_of(n):
        names = []
        while n in parents:
            n = parents[n]
            if isinstance(n, (ast.FunctionDef, ast.ClassDef)):
                names.append(n.name)
        return ".".join(reversed(names)) or "<module>"

    def in_raise_or_assert(n):
        while n in parents:
            n = parents[n]
            if isinstance(n, (ast.Raise, ast.Assert)):
                return True
        return False

    def between(a, b, old, new, node, kind):
        # operator token between the end of a and the start of b (same line only)
        if a.end_lineno != b.lineno:
            return
        line = lines[a.end_lineno - 1]
        seg = line[a.end_col_offset:b.col_offset]
        k = seg.find(old)
        if k < 0 or seg.strip() != old:
            return
        col = a.end_col_offset + k
        out.append({"file": os.path.basename(path), "line": a.end_lineno, "col": col, "old": old, "new": new,
                    "kind": kind, "func": func_of(node), "src": line.strip()[:120]})

    for node in ast.walk(tree):
        f = func_of(node)
        if any(s in f.split(".") for s in SKIP_FUNCS) or in_raise_or_assert(node):
            continue
        if isinstance(node, ast.Compare) and len(node.ops) == 1 and type(node.ops[0]) in CMP:
            old, new = CMP[type(node.ops[0])]
            between(node.left, node.comparators[0], old, new, node, "cmp")
        elif isinstance(node, ast.BinOp) and type(node.op) in BIN:
            old, new = BIN[type(node.op)]
            between(node.left, node.right, old, new, node, "arith")
        elif isinstance(node, ast.BoolOp) and len(node.values) == 2:
            old, new = ("and", "or") if isinstance(node.op, ast.And) else ("or", "and")
            between(node.values[0], node.values[1], old, new, node, "bool")
        elif isinstance(node, ast.UnaryOp) and isinstance(node.op, ast.Not) and node.lineno == node.operand.lineno:
            line = lines[node.lineno - 1]
            if line[node.col_offset:node.col_offset + 4] == "not ":
                out.append({"file": os.path.basename(path), "line": node.lineno, "col": node.col_offset, "old": "not ", "new": "",
                            "kind": "not", "func": f, "src": line.strip()[:120]})
        elif isinstance(node, ast.Call) and isinstance(node.func, ast.Name) and node.func.id in ("min", "max"):
            new = "max" if node.func.id == "min" else "min"
            out.append({"file": os.path.basename(path), "line": node.func.lineno, "col": node.func.col_offset, "old": node.func.id,
                        "new": new, "kind": "minmax", "func": f, "src": lines[node.func.lineno - 1].strip()[:120]})
        elif isinstance(node, ast.Constant) and type(node.value) is int and node.value in (0, 1, 2) and f != "<module>":
            par = parents.get(node)
            if isinstance(par, (ast.Subscript, ast.Slice, ast.keyword, ast.arguments)) or isinstance(par, ast.Tuple):
                continue
            line = lines[node.lineno - 1]
            old = str(node.value)
            if line[node.col_offset:node.end_col_offset] != old:
                continue
            new = {0: "1", 1: "0", 2: "1"}[node.value]
            out.append({"file": os.path.basename(path), "line": node.lineno, "col": node.col_offset, "old": old, "new": new,
                        "kind": "const", "func": f, "src": line.strip()[:120]})
    return out


def gen(per_file, seed):
    rng = random.Random(seed)
    allm = []
    for fn in sorted(os.listdir(PKG)):
        if not fn.endswith(".py") or fn in ("__init__.py",):
            continue
        ms = enum_file(os.path.join(PKG, fn))
        rng.shuffle(ms)
        allm += ms[:per_file] if per_file else ms
    for k, m in enumerate(allm):
        m["id"] = f"m{k:04d}"
        print(json.dumps(m))


def sh(cmd, cwd=None, env=None, timeout=1800):
    try:
        p = subprocess.run(cmd, cwd=cwd, env=env, stdout=subprocess.PIPE, stderr=subprocess.STDOUT, timeout=timeout)
        return p.returncode, p.stdout.decode(errors="replace")
    except subprocess.TimeoutExpired:
        return 124, "timeout"


def run(mfile, outfile, slot, lo, hi):
    ms = [json.loads(l) for l in open(mfile)][lo:hi]
    scratch = f"/tmp/mut/{slot}/repo"
    vc = f"/tmp/vc/{slot}"
    os.makedirs(os.path.dirname(scratch), exist_ok=True)
    sys.path.insert(0, os.path.join(vc, "harness"))
    for m in ms:
        t0 = time.time()
        shutil.rmtree(scratch, ignore_errors=True)
        shutil.copytree(REPO, scratch, ignore=shutil.ignore_patterns(".git", "__pycache__", "docs", "notebooks", "examples"))
        p = os.path.join(scratch, "pyflwdir", m["file"])
        lines = open(p).read().split("\n")
        line = lines[m["line"] - 1]
        assert line[m["col"]:m["col"] + len(m["old"])] == m["old"], (m, line)
        lines[m["line"] - 1] = line[:m["col"]] + m["new"] + line[m["col"] + len(m["old"]):]
        open(p, "w").write("\n".join(lines))
        res = dict(m)
        rc, o = sh(["/venv/bin/python", "-m", "pytest", "-q", "-x", "-p", "no:cacheprovider", "--timeout=300"], cwd=scratch, timeout=900)
        res["tests"] = "pass" if rc == 0 else "fail"
        if rc != 0:
            res["verdict"] = "killed-by-tests"
        else:
            env = dict(os.environ, PYFLWDIR_REPO=scratch, VERIF_SEED=os.environ.get("VERIF_SEED", "0"), PF_VERIF=vc)
            rc, o = sh(["/venv/bin/python", "-c",
                        "import sys,json; sys.path.insert(0,'%s/harness'); import fingerprint; "
                        "print(json.dumps([p for p in %r if fingerprint.changed_for(p,'%s')]))" % (vc, ORDER, scratch)], env=env)
            try:
                props = json.loads(o.strip().splitlines()[-1])
            except Exception:  # noqa: BLE001
                props = ORDER
            res["props"] = props
            res["verdict"] = "survived"
            res["checks"] = {}
            for pr in props:
                rc, o = sh([os.path.join(vc, "check"), "quick", pr], cwd=vc, env=env, timeout=1500)
                vio = [l for l in o.splitlines() if l.startswith("VIOLATION")]
                res["checks"][pr] = rc
                if rc == 1 and vio:
                    res["verdict"] = "caught"
                    res["by"] = pr
                    res["how"] = "no-failing-input-found" if "no-failing-input-found" in vio[0] else "failing-input"
                    break
                if rc not in (0, 1):
                    res["verdict"] = "check-broken"
                    res["by"] = pr
                    res["tail"] = o[-400:]
                    break
        res["wall"] = round(time.time() - t0, 1)
        with open(outfile, "a") as fh:
            fh.write(json.dumps(res) + "\n")
    shutil.rmtree(scratch, ignore_errors=True)
    sh(["/venv/bin/python", os.path.join(vc, "harness", "extract.py")], env=dict(os.environ, PF_VERIF=vc))


if __name__ == "__main__":
    if sys.argv[1] == "gen":
        per = int(sys.argv[sys.argv.index("--per-file") + 1]) if "--per-file" in sys.argv else 0
        seed = int(sys.argv[sys.argv.index("--seed") + 1]) if "--seed" in sys.argv else 0
        gen(per, seed)
    else:
        slot = sys.argv[sys.argv.index("--slot") + 1]
        lo = int(sys.argv[sys.argv.index("--from") + 1]) if "--from" in sys.argv else 0
        hi = int(sys.argv[sys.argv.index("--to") + 1]) if "--to" in sys.argv else None
        run(sys.argv[2], sys.argv[3], slot, lo, hi)
