"""Shared machinery of the pyflwdir verification harness.

Run with /venv/bin/python (the interpreter that has pyflwdir's dependencies); /repo is put on
sys.path so that the *working tree* is what gets imported.
"""
import hashlib
import json
import os
import random
import subprocess
import sys
import time

VERIF = os.environ.get("PF_VERIF") or os.path.dirname(os.path.dirname(os.path.abspath(__file__)))
REPO = os.environ.get("PYFLWDIR_REPO", "/repo")
LEAN_DIR = os.environ.get("PF_LEAN_DIR") or os.path.join(VERIF, "lean")
DRIVER = os.path.join(LEAN_DIR, ".lake", "build", "bin", "pfdriver")

if os.environ.get("PF_JIT", "0") != "1":
    os.environ.setdefault("NUMBA_DISABLE_JIT", "1")
if REPO not in sys.path:
    sys.path.insert(0, REPO)

# development aid (harness/linecov.py): which lines / branches of the implementation does the correspondence
# execute?  Never part of a verdict; off unless PF_LINECOV names a data file.
if os.environ.get("PF_LINECOV"):
    try:
        import atexit
        import coverage as _coverage
        _COV = _coverage.Coverage(data_file=os.environ["PF_LINECOV"], data_suffix=True, branch=True,
                                  include=[os.path.join(REPO, "pyflwdir", "*")])
        _COV.start()

        def _cov_stop():
            _COV.stop()
            _COV.save()
        atexit.register(_cov_stop)
    except Exception:  # noqa: BLE001
        pass

import numpy as np  # noqa: E402


# ----------------------------------------------------------------------------------------
# line protocol
# ----------------------------------------------------------------------------------------
def enc_args(args):
    """args: dict name -> int | bool | sequence of ints/bools | None (omitted)"""
    parts = []
    k = 0
    for name, v in args.items():
        if v is None:
            continue
        if isinstance(v, (bool, np.bool_)):
            vals = [int(v)]
        elif isinstance(v, (int, np.integer)):
            vals = [int(v)]
        elif isinstance(v, (list, tuple)) and all(isinstance(x, (int, bool, np.integer, np.bool_)) for x in v):
            vals = [int(x) for x in v]     # exact for any magnitude (np.asarray would go through float64 above 2**63)
        else:
            a = np.asarray(v)
            if a.dtype == bool:
                a = a.astype(np.int64)
            vals = [int(x) for x in a.ravel().tolist()]
        parts.append(f"{name} {len(vals)}" + "".join(f" {x}" for x in vals))
        k += 1
    return f"{k} " + " ".join(parts) if parts else "0"


def parse_answer(line):
    t = line.split()
    rid, status = t[0], t[1]
    if status != "ok":
        return rid, {"__err__": " ".join(t[2:])}
    k = int(t[2])
    pos = 3
    out = {}
    for _ in range(k):
        name = t[pos]
        n = int(t[pos + 1])
        out[name] = [int(x) for x in t[pos + 2 : pos + 2 + n]]
        pos += 2 + n
    return rid, out


class DriverError(Exception):
    pass


def run_driver(requests):
    """requests: list of (id, op, argsdict). Returns dict id -> answer dict."""
    if not os.path.exists(DRIVER):
        raise DriverError(f"model driver not built: {DRIVER}")
    text = "".join(f"{rid} {op} {enc_args(a)}\n" for rid, op, a in requests)
    p = subprocess.run([DRIVER], input=text.encode(), stdout=subprocess.PIPE,
                       stderr=subprocess.PIPE, timeout=1800)
    if p.returncode != 0:
        raise DriverError(f"driver exited {p.returncode}: {p.stderr[-400:]!r}")
    res = {}
    for line in p.stdout.decode().splitlines():
        if not line.strip():
            continue
        rid, out = parse_answer(line)
        res[rid] = out
    panics = p.stderr.count(b"index out of bounds")
    return res, panics


# ----------------------------------------------------------------------------------------
# canonicalisation helpers
# ----------------------------------------------------------------------------------------
def canon_idx(a, n):
    """index array -> python ints with every missing-value sentinel mapped to n"""
    a = np.asarray(a)
    out = []
    for x in a.ravel().tolist():
        x = int(x)
        if x < 0 or x >= n:
            x = n
        out.append(x)
    return out


def ints(a):
    return [int(x) for x in np.asarray(a).ravel().tolist()]


def exc_class(e):
    for c in (ValueError, IndexError, TypeError):
        if isinstance(e, c) and type(e).__module__ == "builtins":
            return c.__name__
    return "other:" + type(e).__name__


def jsonable(x):
    if isinstance(x, dict):
        return {str(k): jsonable(v) for k, v in x.items()}
    if isinstance(x, (list, tuple)):
        return [jsonable(v) for v in x]
    if isinstance(x, np.ndarray):
        return jsonable(x.tolist())
    if isinstance(x, (np.integer,)):
        return int(x)
    if isinstance(x, (np.floating,)):
        return float(x)
    if isinstance(x, (np.bool_,)):
        return bool(x)
    return x


# ----------------------------------------------------------------------------------------
# generators (every random choice derives from one random.Random)
# ----------------------------------------------------------------------------------------
D8_DRDC = {1: (0, 1), 2: (1, 1), 4: (1, 0), 8: (1, -1), 16: (0, -1), 32: (-1, -1), 64: (-1, 0), 128: (-1, 1)}
D8_CODES = [1, 2, 4, 8, 16, 32, 64, 128]


def gen_shape(rng, max_cells=56, max_side=9):
    kind = rng.random()
    if kind < 0.08:
        return (1, rng.randint(2, max_side + 3))
    if kind < 0.16:
        return (rng.randint(2, max_side + 3), 1)
    while True:
        r, c = rng.randint(2, max_side), rng.randint(2, max_side)
        if r * c <= max_cells:
            return (r, c)


def gen_dem_net(rng, shape, p_nodata=0.15, p_extra_pit=0.05):
    """Loop-free D8 network built from a random integer elevation surface (harness' own
    steepest-descent: each cell drains to a strictly lower neighbour, or is a pit).
    Returns ds (list, n = missing)."""
    nrow, ncol = shape
    n = nrow * ncol
    elev = [rng.randint(0, 30) for _ in range(n)]
    valid = [rng.random() >= p_nodata for _ in range(n)] if rng.random() < 0.6 else [True] * n
    if sum(valid) < 2:
        valid = [True] * n
    ds = [n] * n
    for i in range(n):
        if not valid[i]:
            continue
        r, c = divmod(i, ncol)
        cands = []
        for dr in (-1, 0, 1):
            for dc in (-1, 0, 1):
                if dr == 0 and dc == 0:
                    continue
                r1, c1 = r + dr, c + dc
                if 0 <= r1 < nrow and 0 <= c1 < ncol:
                    j = r1 * ncol + c1
                    if valid[j] and (elev[j], j) < (elev[i], i):
                        cands.append(j)
        if not cands or rng.random() < p_extra_pit:
            ds[i] = i
        else:
            # mostly steepest, sometimes any lower neighbour (more confluences)
            if rng.random() < 0.7:
                ds[i] = min(cands, key=lambda j: (elev[j], j))
            else:
                ds[i] = rng.choice(cands)
    return ds


def gen_forest(rng, n, p_nodata=0.1, max_pits=3, fanin_bias=0.0):
    """Loop-free vector network on n nodes (arbitrary, not 8-neighbour): random recursive forest
    under a random relabelling."""
    perm = list(range(n))
    rng.shuffle(perm)
    valid_count = max(2, n - int(n * p_nodata * rng.random() * 2))
    nodes = perm[:valid_count]
    ds = [n] * n
    npits = rng.randint(1, min(max_pits, valid_count))
    for k, v in enumerate(nodes):
        if k < npits:
            ds[v] = v
        else:
            if rng.random() < fanin_bias:
                ds[v] = nodes[rng.randint(0, min(k - 1, npits))]
            else:
                ds[v] = nodes[rng.randint(0, k - 1)]
    return ds


def gen_funcgraph(rng, n, p_nodata=0.1):
    """Arbitrary functional graph (may contain cycles); valid cells point to valid cells."""
    valid = [rng.random() >= p_nodata for _ in range(n)]
    if sum(valid) < 2:
        valid = [True] * n
    vs = [i for i in range(n) if valid[i]]
    ds = [n] * n
    mode = rng.random()
    for i in vs:
        if mode < 0.3 and rng.random() < 0.3:
            ds[i] = i
        else:
            ds[i] = rng.choice(vs)
    return ds


def net_features(ds):
    n = len(ds)
    nup = [0] * n
    for i, d in enumerate(ds):
        if d != n and d != i:
            nup[d] += 1
    nvalid = sum(1 for d in ds if d != n)
    npit = sum(1 for i, d in enumerate(ds) if d == i)
    return {"n": n, "valid": nvalid, "pits": npit, "max_inflow": max(nup) if nup else 0,
            "confluences": sum(1 for x in nup if x > 1)}


def max_path_len(ds):
    n = len(ds)
    best = 0
    for i in range(n):
        if ds[i] == n:
            continue
        k, j = 0, i
        while ds[j] != j and k <= n:
            j = ds[j]
            k += 1
        best = max(best, k)
    return best


def ds_to_np(ds, dtype=np.int32):
    """python ds (n = missing) -> numpy idxs_ds with the dtype's own sentinel"""
    n = len(ds)
    mv = np.array(-1).astype(dtype) if np.issubdtype(dtype, np.signedinteger) else np.iinfo(dtype).max
    a = np.array([int(mv) if d == n else d for d in ds], dtype=np.uint64 if dtype == np.uint64 else np.int64)
    return a.astype(dtype)


# ----------------------------------------------------------------------------------------
# check context: collects cases, runs the model driver once, judges, writes evidence
# ----------------------------------------------------------------------------------------
class Hang(BaseException):
    """raised by the watchdog alarm (BaseException: not swallowed by `except Exception` in harness code)"""


class Ctx:
    def __init__(self, prop, tier, seed):
        self.prop = prop
        self.tier = tier
        self.seed = seed
        self.rng = random.Random(seed * 1000003 + int(prop[1:]))
        CURRENT_PROP[0] = prop
        self.t0 = time.time()
        self.cases = []          # (cid, desc, requests, judge)
        self.failures = []       # dicts
        self.hist = {}
        self.evaluations = 0
        self.nontrivial = set()
        self.samples = []
        self.panics = 0
        self.notes = []
        self.impl_validated = 0

    # --- watchdog: the harness calls the implementation in-process; a call that never returns must end as a
    # verdict, not as a stalled check. Every count()/add()/fail() is a heartbeat that re-arms an alarm; if no
    # heartbeat arrives for `watchdog` seconds check.py's SIGALRM handler raises Hang in the main thread: inside
    # implementation frames that is a termination failure of the property's operation (spec), elsewhere the
    # check is broken (exit 2).
    watchdog = 0

    def beat(self):
        if self.watchdog:
            import signal
            signal.alarm(self.watchdog)

    def no_watchdog(self):
        import signal
        self.watchdog = 0
        signal.alarm(0)

    def count(self, key, k=1):
        self.beat()
        self.hist[key] = self.hist.get(key, 0) + k

    def add(self, desc, requests, judge, nontrivial=True, key=None):
        """desc: JSON-able description of the case (op + inputs; is the replay).
        requests: list of (op, args) sent to the Lean driver.
        judge(answers: list[dict]) -> list of failure dicts {kind: 'spec'|'model', what: str, ...}"""
        self.beat()
        cid = f"c{len(self.cases)}"
        self.cases.append((cid, desc, requests, judge))
        self.evaluations += 1
        if nontrivial:
            h = hashlib.sha1(json.dumps(jsonable(key if key is not None else desc), sort_keys=True).encode()).hexdigest()
            self.nontrivial.add(h)
        if len(self.samples) < 3:
            self.samples.append(jsonable(desc))

    def fail(self, desc, kind, what, **extra):
        self.failures.append({"desc": jsonable(desc), "kind": kind, "what": what, **jsonable(extra)})

    def flush(self):
        reqs = []
        for cid, desc, requests, judge in self.cases:
            for k, (op, args) in enumerate(requests):
                reqs.append((f"{cid}.{k}", op, args))
        answers, panics = run_driver(reqs) if reqs else ({}, 0)
        self.panics += panics
        for cid, desc, requests, judge in self.cases:
            ans = [answers.get(f"{cid}.{k}", {"__err__": "no-answer"}) for k in range(len(requests))]
            try:
                fs = judge(ans) or []
            except Exception as e:  # harness bug -> broken check, not a violation
                raise
            for f in fs:
                self.failures.append({"desc": jsonable(desc), **jsonable(f)})
            self.impl_validated += 1
        self.cases = []


def load_known_findings():
    p = os.path.join(VERIF, "known_findings.json")
    if not os.path.exists(p):
        return []
    return json.load(open(p)).get("findings", [])


# ----------------------------------------------------------------------------------------
# building real pyflwdir objects from harness networks (lowest public level)
# ----------------------------------------------------------------------------------------
# Objects handed to the property harnesses are, with some probability, NOT fresh: they may have answered
# other queries before (warm caches) and may have reached their network through a mutator (built from a
# network in which one pit still drained somewhere, then `add_pits`). By C12 this must be unobservable; it
# makes every property check sensitive to stale or argument-dependent cached state.
_HIST_RNG = random.Random(int(os.environ.get("VERIF_SEED", "0") or 0) * 7919 + 13)
HISTORY_STATS = {"fresh": 0, "warm": 0, "via_add_pits": 0, "via_set_transform": 0, "aged_ops": 0}
CURRENT_PROP = [None]   # set by Ctx: which property is being checked (decides the focus of the ageing)

# catalogue operations a property's own observables share state with: ageing prefers them, so that an object has
# typically answered the SAME kind of query before with other arguments (argument-dependent caches, results
# stored under the wrong condition), and - through the mutator paths below - before a network / transform change
PROP_FOCUS = {
    "C01": ("to_array", "idxs_pit", "mask"), "C02": ("to_array", "idxs_seq", "basins", "upstream_area", "rank"),
    "C03": ("rank", "idxs_seq", "nnodes", "isvalid", "n_upstream", "idxs_pit"),
    "C04": ("upstream_area", "accuflux", "area", "ucat", "hand_floodplains"),
    "C05": ("basins", "basin_outlets", "basin_bounds", "interbasin_mask", "inflow_outflow_idxs"),
    "C08": ("stream_order", "main_upstream", "idxs_us_main", "upstream_area", "subbasins_streamorder", "streams",
            "moving_average", "subbasins_area", "subbasins_pfafstetter"),
    "C09": ("upstream_area", "idxs_us_main"), "C10": ("upstream_area", "idxs_us_main", "distnc", "hand_floodplains", "subgrid_riv", "ucat"),
    "C11": ("path", "snap", "idxs_us_main", "distnc"),
    "C14": ("moving_average", "moving_median", "fillnodata", "stream_distance", "hand_floodplains", "smooth_rivlen",
            "downstream", "upstream_sum", "main_upstream", "upstream_area", "river_depth", "classify_estuaries"),
    "C15": ("dem_adjust",), "C17": ("area", "upstream_area", "index_xy", "distnc", "bounds", "stream_distance"),
    "C18": ("subbasins_streamorder", "subbasins_area", "stream_order", "idxs_us_main", "upstream_area"),
    "C19": ("streams", "vectorize", "n_upstream", "stream_order"), "C20": (),
}


def _warmup(flw, rng, raster, loopfree=True):
    n = flw.size
    first = int(np.flatnonzero(np.asarray(flw.idxs_ds).ravel() != flw._mv)[0])
    shp = flw.shape if raster else (n,)
    qs = [lambda: flw.rank, lambda: flw.idxs_seq, lambda: flw.nnodes, lambda: flw.idxs_pit, lambda: flw.idxs_us_main,
          lambda: flw.stream_order(), lambda: flw.stream_order(type="classic"), lambda: flw.upstream_area(),
          lambda: flw.area, lambda: flw.distnc, lambda: flw.n_upstream,
          lambda: flw.stream_order(mask=(np.arange(n) % 2 == 0).reshape(shp)),
          lambda: flw.main_upstream(uparea=np.arange(n, 0, -1, dtype=np.float64).reshape(shp)),
          lambda: flw.moving_average(np.ones(shp), n=1), lambda: flw.accuflux(np.ones(shp))]
    if raster:
        qs += [lambda: flw.upstream_area("km2"), lambda: flw.upstream_area("ha"), lambda: flw.upstream_area("m2"), lambda: flw.basins(),
               lambda: flw.stream_distance(unit="cell"), lambda: flw.ucat_area(np.array([[first]]), unit="km2"),
               lambda: flw.subbasins_streamorder(min_sto=1), lambda: flw.floodplains(np.zeros(flw.shape)),
               lambda: flw.subgrid_rivlen(None, unit="cell")]
    if loopfree:
        for q in rng.sample(qs, rng.randint(0, 4)):
            try:
                q()
            except Exception:  # noqa: BLE001  (warm-up never decides anything)
                pass
    try:
        import catalogue
        ran = catalogue.age(flw, rng, focus=PROP_FOCUS.get(CURRENT_PROP[0], ()), loopfree=loopfree)
        HISTORY_STATS["aged_ops"] += len(ran)
    except Exception:  # noqa: BLE001
        pass


def aged(flw, p=0.4, loopfree=True):
    """for harnesses that build their objects themselves (from_array, from_dem, ...): with probability p let the object
    answer a few catalogue queries first. Returns flw."""
    rng = _HIST_RNG
    if os.environ.get("PF_NO_HISTORY") == "1" or rng.random() >= p or not getattr(flw, "cache", True):
        return flw
    try:
        _warmup(flw, rng, hasattr(flw, "transform"), loopfree=loopfree)
        HISTORY_STATS["warm"] += 1
    except Exception:  # noqa: BLE001
        pass
    return flw


def _other_transform(rng, kw):
    """a georeference different from the one the harness asks for (other cell size, other origin, possibly the other
    latlon flag): the object is built with it, aged, and then moved to the requested one with set_transform"""
    from affine import Affine
    t = kw.get("transform")
    a, b, c, d, e, f = (tuple(t)[:6] if t is not None else (1.0, 0.0, 0.0, 0.0, -1.0, 0.0))
    latlon = bool(kw.get("latlon", False))
    u = rng.random()
    if u < 0.35:      # same cell size, other origin (for geographic grids: other latitudes)
        return Affine(a, b, c + rng.choice([-3, 2, 10]), d, e, f + rng.choice([-7, 4, 11])), latlon
    if u < 0.7:       # other cell size
        k = rng.choice([2, 0.5, 3])
        return Affine(a * k, b, c, d, e * rng.choice([k, 1, 1 / k]), f), latlon
    return Affine(a, b, c, d, e, f), not latlon   # same affine, other latlon flag


def _with_history(build, ds, dtype, raster, kw):
    rng = _HIST_RNG
    u = rng.random()
    if "cache" not in kw and os.environ.get("PF_NO_HISTORY") != "1" and rng.random() < 0.2:
        # "whether caching is enabled" is unobservable (C12): a fifth of the objects is built with cache=False
        kw = dict(kw, cache=False)
        HISTORY_STATS["cache_off"] = HISTORY_STATS.get("cache_off", 0) + 1
    plain = not any(k in kw for k in ("idxs_pit", "idxs_seq", "nnodes", "idxs_outlet")) and kw.get("cache", True)
    if os.environ.get("PF_NO_HISTORY") == "1" or u < 0.55 or not plain:
        HISTORY_STATS["fresh"] += 1
        return build(ds_to_np(ds, dtype), kw)
    n = len(ds)
    pits = [i for i in range(n) if ds[i] == i]
    valid = [i for i in range(n) if ds[i] != n]
    loopfree = len(topo_of(ds)) == len(valid)
    # optionally reach the requested georeference through set_transform
    kw0, moved = kw, False
    if raster and rng.random() < 0.3:
        t0, ll0 = _other_transform(rng, kw)
        kw0 = dict(kw, transform=t0, latlon=ll0)
        moved = True

    def finish(flw):
        if moved:
            from affine import Affine
            t = kw.get("transform")
            flw.set_transform(t if t is not None else Affine(1.0, 0.0, 0.0, 0.0, -1.0, 0.0), bool(kw.get("latlon", False)))
            HISTORY_STATS["via_set_transform"] += 1
        return flw
    if u < 0.8 or len(pits) < 2 or len(valid) < 3:
        flw = build(ds_to_np(ds, dtype), kw0)
        _warmup(flw, rng, raster, loopfree)
        HISTORY_STATS["warm"] += 1
        return finish(flw)
    # reach `ds` through a mutator: pit p still drains to some other valid cell in the initial network
    p = rng.choice(pits)
    q = rng.choice([v for v in valid if v != p])
    ds0 = list(ds)
    ds0[p] = q
    try:
        flw = build(ds_to_np(ds0, dtype), kw0)
        _warmup(flw, rng, raster, len(topo_of(ds0)) == len(valid))
        # the same cell may be listed twice (two gauges snapping to one stream cell) or together with an existing pit
        extra = rng.random()
        flw.add_pits(idxs=np.array([p, p] if extra < 0.3 else ([p, rng.choice(pits)] if extra < 0.5 else [p])))
        if canon_idx(flw.idxs_ds, n) != list(ds):
            raise RuntimeError("harness: add_pits did not produce the intended network")
        HISTORY_STATS["via_add_pits"] += 1
        return finish(flw)
    except ValueError:
        HISTORY_STATS["fresh"] += 1
        return build(ds_to_np(ds, dtype), kw)


def mk_raster(ds, shape, dtype=np.int32, ftype="d8", **kw):
    from pyflwdir.pyflwdir import FlwdirRaster
    return _with_history(lambda a, k: FlwdirRaster(idxs_ds=a, shape=tuple(shape), ftype=ftype, **k), ds, dtype, True, kw)


def mk_vector(ds, dtype=np.int32, **kw):
    from pyflwdir.flwdir import Flwdir
    return _with_history(lambda a, k: Flwdir(idxs_ds=a, **k), ds, dtype, False, kw)


def gen_raster_net(rng, max_cells=56, loopfree=True):
    """(ds, shape, family): a network on a raster shape. Families: dem (true D8 links), forest
    (arbitrary links laid on a raster shape), funcgraph (may contain loops; only if not loopfree)."""
    shape = gen_shape(rng, max_cells=max_cells)
    n = shape[0] * shape[1]
    u = rng.random()
    if not loopfree and u < 0.35:
        return gen_funcgraph(rng, n), shape, "funcgraph"
    if u < 0.75:
        return gen_dem_net(rng, shape), shape, "dem"
    return gen_forest(rng, n, fanin_bias=rng.choice([0.0, 0.0, 0.5])), shape, "forest"


def snake_path(nrow, ncol, by="row", corner="tl"):
    """all cells of an nrow x ncol raster in boustrophedon ('snake') order, as a numpy int64 array of linear indices:
    consecutive cells are 4-neighbours. by='row': along the rows, by='col': along the columns; corner = the raster
    corner the path starts in (tl, tr, bl, br)."""
    idx = np.arange(nrow * ncol, dtype=np.int64).reshape(nrow, ncol)
    if corner[0] == "b":
        idx = idx[::-1]
    if corner[1] == "r":
        idx = idx[:, ::-1]
    if by == "col":
        idx = idx.T
    idx = idx.copy()
    idx[1::2] = idx[1::2, ::-1]
    return idx.ravel()


def gen_channel_net(rng, max_cells=56, min_cells=5):
    """(ds, shape, family): a raster network that consists mostly of ONE long flow path (a meandering river / a canal):
    a 1 x N or N x 1 channel, or a snake through an r x c raster (along rows or columns, from any corner); the pit is
    the first cell of the path. The main path covers all cells or more than half of them; the remaining cells are
    nodata or short D8 side branches draining to a neighbouring cell earlier on the snake; occasionally the river is cut
    in two by one nodata cell. All links are true D8 links."""
    u = rng.random()
    if u < 0.3:
        N = rng.randint(min_cells, max_cells)
        shape = (1, N) if rng.random() < 0.6 else (N, 1)
        fam = "channel"
    else:
        while True:
            r = rng.randint(2, 9)
            c = rng.randint(2, max(2, max_cells // r))
            if min_cells <= r * c <= max_cells:
                break
        shape = (r, c) if rng.random() < 0.5 else (c, r)
        fam = "snake"
    nrow, ncol = shape
    n = nrow * ncol
    path = [int(x) for x in snake_path(nrow, ncol, rng.choice(["row", "col"]), rng.choice(["tl", "tr", "bl", "br"]))]
    pos = {cell: k for k, cell in enumerate(path)}
    L = n if rng.random() < 0.5 else rng.randint(n // 2 + 1, n)
    ds = [n] * n
    ds[path[0]] = path[0]
    for k in range(1, L):
        ds[path[k]] = path[k - 1]
    rest = rng.choice(["nodata", "branch", "mixed"])
    for k in range(L, n):
        i = path[k]
        if rest == "nodata" or (rest == "mixed" and rng.random() < 0.5):
            continue
        r0, c0 = divmod(i, ncol)
        cands = [r1 * ncol + c1 for r1 in (r0 - 1, r0, r0 + 1) for c1 in (c0 - 1, c0, c0 + 1)
                 if 0 <= r1 < nrow and 0 <= c1 < ncol and pos[r1 * ncol + c1] < k and ds[r1 * ncol + c1] != n]
        ds[i] = rng.choice(cands) if cands and rng.random() < 0.9 else i
    if L >= 6 and rng.random() < 0.15:
        q = path[rng.randint(L // 2, L - 2)]      # the river is cut: the cell upstream of the gap becomes a pit
        ds[q] = n
        for i in range(n):
            if ds[i] == q:
                ds[i] = i
        fam += "-cut"
    return ds, shape, fam


def ds_to_nextxy(ds, shape, pit_code=-9):
    """(nextx, nexty) int32 rasters (one-based column / row of the downstream cell, pit_code at pits, -9999 outside the
    network) of a raster network; any link, not only 8-neighbour links"""
    nrow, ncol = shape
    n = nrow * ncol
    nx = np.full(n, -9999, dtype=np.int32)
    ny = np.full(n, -9999, dtype=np.int32)
    for i, d in enumerate(ds):
        if d == n:
            continue
        if d == i:
            nx[i] = ny[i] = pit_code
        else:
            nx[i], ny[i] = d % ncol + 1, d // ncol + 1
    return nx.reshape(shape), ny.reshape(shape)


def topo_of(ds):
    """harness' own downstream-first order of the cells that reach a pit"""
    n = len(ds)
    ups = [[] for _ in range(n)]
    for i, d in enumerate(ds):
        if d != n and d != i:
            ups[d].append(i)
    seq = [i for i in range(n) if ds[i] == i]
    k = 0
    while k < len(seq):
        seq.extend(ups[seq[k]])
        k += 1
    return seq


# ----------------------------------------------------------------------------------------
# memory layout of array arguments at the public API boundary
# ----------------------------------------------------------------------------------------
# Users hand the library transposed views, column-major arrays and strided windows of larger rasters. The values a
# harness generates are what matters to a property; with some probability the arrays it passes to a public method /
# function are therefore replaced, at the call boundary, by arrays with the SAME shape, dtype and values but another
# memory layout. For a correct implementation this is unobservable.
LAYOUT_STATS = {"api_calls": 0, "relayouted_args": 0}
_LAY_RNG = random.Random(int(os.environ.get("VERIF_SEED", "0") or 0) * 104729 + 7)


def _relayout(a, rng):
    if type(a) is not np.ndarray or a.size < 2 or a.dtype.kind not in "biuf":
        return a
    u = rng.random()
    if a.ndim == 2:
        if u < 0.4:
            return np.asfortranarray(a)
        if u < 0.7:
            big = np.zeros((a.shape[0], 2 * a.shape[1]), dtype=a.dtype)
            big[:, ::2] = a
            return big[:, ::2]
        big = np.zeros((2 * a.shape[0], a.shape[1]), dtype=a.dtype)
        big[1::2] = a
        return big[1::2]
    if a.ndim == 1:
        big = np.zeros(2 * a.size, dtype=a.dtype)
        big[::2] = a
        return big[::2]
    if a.ndim == 3:
        return np.asfortranarray(a)
    return a


def _vary(x, rng):
    if isinstance(x, np.ndarray):
        u = rng.random()
        if u < 0.45:
            LAYOUT_STATS["relayouted_args"] += 1
            return _relayout(x, rng)
        if u < 0.7 and type(x) is np.ndarray and x.size >= 2 and x.dtype.kind in "biuf":
            # same layout, but a private copy: it is overwritten after the call (see the wrapper), which an
            # implementation notices only if it kept a reference to (a view of) its argument
            LAYOUT_STATS["private_copies"] = LAYOUT_STATS.get("private_copies", 0) + 1
            return np.array(x, copy=True, order="K")
        return x
    if isinstance(x, tuple) and 0 < len(x) <= 3 and all(isinstance(y, np.ndarray) for y in x):
        return tuple(_vary(y, rng) for y in x)
    return x


def install_layout_variation(p=0.35):
    """wrap the public methods of Flwdir / FlwdirRaster and the public module-level functions"""
    if os.environ.get("PF_NO_LAYOUT") == "1":
        return
    import functools
    import inspect
    import pyflwdir
    from pyflwdir.flwdir import Flwdir
    from pyflwdir.pyflwdir import FlwdirRaster
    depth = [0]

    def wrap(fn, skip_self):
        if getattr(fn, "_pf_layout", False):
            return fn

        @functools.wraps(fn)
        def wrapped(*args, **kwargs):
            if depth[0] > 0 or _LAY_RNG.random() >= p:
                depth[0] += 1
                try:
                    return fn(*args, **kwargs)
                finally:
                    depth[0] -= 1
            LAYOUT_STATS["api_calls"] += 1
            k0 = 1 if skip_self else 0
            orig = list(args[k0:]) + list(kwargs.values())
            args = tuple(args[:k0]) + tuple(_vary(a, _LAY_RNG) for a in args[k0:])
            kwargs = {k: _vary(v, _LAY_RNG) for k, v in kwargs.items()}
            mine = []
            for a0, b0 in zip(orig, list(args[k0:]) + list(kwargs.values())):
                if isinstance(b0, tuple) and isinstance(a0, tuple):
                    mine += [y for x, y in zip(a0, b0) if y is not x]
                elif b0 is not a0:
                    mine.append(b0)
            depth[0] += 1
            try:
                out = fn(*args, **kwargs)
            finally:
                depth[0] -= 1
            # The stand-in arrays belong to this wrapper: like a caller re-filling its buffers after the call, it
            # overwrites them (every entry becomes the first one: still values of the same kind) - unless the result is a view of one of them. An
            # implementation that kept a reference to an argument for later calls now holds something else.
            res = [x for x in (out if isinstance(out, (tuple, list)) else [out]) if isinstance(x, np.ndarray)]
            for b in mine:
                for y in (b,):
                    if isinstance(y, np.ndarray) and y.flags.writeable and not any(np.shares_memory(y, r) for r in res):
                        y[...] = y.flat[0]
                        LAYOUT_STATS["scribbled_after_call"] = LAYOUT_STATS.get("scribbled_after_call", 0) + 1
            return out
        wrapped._pf_layout = True
        return wrapped
    for cls in (Flwdir, FlwdirRaster):
        for nm, v in list(vars(cls).items()):
            if nm.startswith("_") or not inspect.isfunction(v):
                continue
            setattr(cls, nm, wrap(v, True))
    for nm in ("from_array", "from_dem"):
        v = getattr(pyflwdir.pyflwdir, nm)
        w = wrap(v, False)
        setattr(pyflwdir.pyflwdir, nm, w)
        if getattr(pyflwdir, nm, None) is v:
            setattr(pyflwdir, nm, w)
    for m, names in (("dem", ("fill_depressions", "slope")), ("gis_utils", ("spread2d", "get_edge")),
                     ("regions", ("region_sum", "region_area", "region_bounds", "region_dissolve", "region_outlets"))):
        mod = __import__("pyflwdir." + m, fromlist=[m])
        for nm in names:
            v = getattr(mod, nm, None)
            if v is not None and inspect.isfunction(v):
                setattr(mod, nm, wrap(v, False))


def strahler_of(ds):
    """harness' own Strahler order (0 outside the cells that reach a pit): 1 at headwaters, at a junction the largest
    inflowing order, plus one iff it is attained at least twice"""
    n = len(ds)
    seq = topo_of(ds)
    order, mx, cnt = [0] * n, [0] * n, [0] * n
    for i in reversed(seq):
        o = 1 if mx[i] == 0 else (mx[i] + 1 if cnt[i] >= 2 else mx[i])
        order[i] = o
        d = ds[i]
        if d != i:
            if o > mx[d]:
                mx[d], cnt[d] = o, 1
            elif o == mx[d]:
                cnt[d] += 1
    return order


# ----------------------------------------------------------------------------------------
# auxiliary queries validated at the source
# ----------------------------------------------------------------------------------------
# Several oracles take a quantity the IMPLEMENTATION computed as an input (the Strahler order that defines a stream
# mask, the main-upstream cells a window walks along, the upstream cell count that picks outlets). If such a quantity is
# stale or has been corrupted in place, implementation and oracle agree with each other and the defect is invisible. The
# default-argument forms of these queries are therefore validated against the harness' own computation from
# `flw.idxs_ds` whenever anybody - the harness or the library itself - asks for them (loop-free networks up to
# AUX_MAX_CELLS cells). Failures are collected here and turned into `spec` failures by check.py.
AUX_FAILURES = []
AUX_STATS = {"validated": 0}
AUX_MAX_CELLS = 2000


def _aux_net(flw):
    n = int(flw.size)
    if n > AUX_MAX_CELLS:
        return None
    ds = canon_idx(flw.idxs_ds, n)
    valid = [i for i in range(n) if ds[i] != n]
    seq = topo_of(ds)
    if len(seq) != len(valid):
        return None          # loops: the documented behaviour of these queries is checked by C03 only
    return n, ds, valid, seq


def _aux_fail(flw, ds, what, got, want):
    if len(AUX_FAILURES) < 50:
        shp = getattr(flw, "shape", None)
        AUX_FAILURES.append({"desc": {"op": "auxiliary query (validated at the source)", "ds": ds,
                                      "shape": list(shp) if hasattr(shp, "__len__") else [len(ds)],
                                      "cached_keys": sorted(getattr(flw, "_cached", {}).keys())},
                             "kind": "spec", "what": what, "impl": got, "expected": want})


def _own_uparea(flw, n, ds, seq, raster):
    loc = [1.0] * n if raster else [float(x) for x in np.asarray(flw.area).ravel().tolist()]
    acc = [0.0] * n
    for i in seq:
        acc[i] = loc[i]
    for i in reversed(seq):
        if ds[i] != i:
            acc[ds[i]] += acc[i]
    return acc


def install_aux_validation():
    if os.environ.get("PF_NO_AUX") == "1":
        return
    import functools
    from pyflwdir.flwdir import Flwdir
    from pyflwdir.pyflwdir import FlwdirRaster
    if getattr(Flwdir, "_pf_aux", False):
        return
    Flwdir._pf_aux = True
    busy = [0]

    def guarded(check):
        def deco(fn):
            @functools.wraps(fn)
            def wrapped(self, *a, **k):
                out = fn(self, *a, **k)
                if busy[0] == 0:
                    busy[0] += 1
                    try:
                        check(self, out, a, k)
                    except Exception:  # noqa: BLE001  (validation itself never breaks a run)
                        pass
                    finally:
                        busy[0] -= 1
                return out
            return wrapped
        return deco

    def chk_strord(self, out, a, k):
        typ = (a[0] if a else k.get("type", "strahler"))
        if str(typ).lower() != "strahler" or (len(a) > 1 and a[1] is not None) or k.get("mask") is not None:
            return
        net = _aux_net(self)
        if net is None:
            return
        n, ds, valid, seq = net
        want = strahler_of(ds)
        got = [int(x) for x in np.asarray(out).ravel().tolist()]
        AUX_STATS["validated"] += 1
        if max(want, default=0) < 256 and got != want:
            _aux_fail(self, ds, "stream_order() [default: Strahler, no mask] differs from the Strahler order of the object's current network", got, want)

    def chk_uparea(self, out, a, k):
        raster = isinstance(self, FlwdirRaster)
        unit = (a[0] if a else k.get("unit", "cell")) if raster else "cell"
        if str(unit).lower() != "cell":
            return
        net = _aux_net(self)
        if net is None:
            return
        n, ds, valid, seq = net
        acc = _own_uparea(self, n, ds, seq, raster)
        got = [float(x) for x in np.asarray(out).ravel().tolist()]
        AUX_STATS["validated"] += 1
        bad = [i for i in valid if abs(got[i] - acc[i]) > 1e-6 * max(1.0, abs(acc[i]))]
        if bad:
            _aux_fail(self, ds, f"upstream_area() [default unit] differs from the upstream sum on the object's current network at cells {bad[:5]}", got, acc)

    def chk_usmain(self, out):
        net = _aux_net(self)
        if net is None:
            return
        n, ds, valid, seq = net
        raster = isinstance(self, FlwdirRaster)
        acc = _own_uparea(self, n, ds, seq, raster)
        best, want = [0.0] * n, [n] * n
        for i in range(n):
            d = ds[i]
            if d == n or d == i:
                continue
            if acc[i] > best[d]:
                best[d], want[d] = acc[i], i
        got = canon_idx(out, n)
        AUX_STATS["validated"] += 1
        if got != want:
            _aux_fail(self, ds, "idxs_us_main differs from 'inflowing cell with the largest upstream area (first one on ties)' on the object's current network", got, want)

    def chk_rank(self, out):
        net = _aux_net(self)
        if net is None:
            return
        n, ds, valid, seq = net
        want = [-9999] * n
        for i in seq:
            want[i] = 0 if ds[i] == i else want[ds[i]] + 1
        got = [int(x) for x in np.asarray(out).ravel().tolist()]
        AUX_STATS["validated"] += 1
        if got != want:
            _aux_fail(self, ds, "rank differs from the number of steps to the pit on the object's current network", got, want)

    for cls in (Flwdir, FlwdirRaster):
        d = vars(cls)
        if "stream_order" in d:
            setattr(cls, "stream_order", guarded(chk_strord)(d["stream_order"]))
        if "upstream_area" in d:
            setattr(cls, "upstream_area", guarded(chk_uparea)(d["upstream_area"]))
    for name, chk in (("idxs_us_main", chk_usmain), ("rank", chk_rank)):
        prop = vars(Flwdir).get(name)
        if isinstance(prop, property):
            def mk(prop, chk):
                def getter(self):
                    out = prop.fget(self)
                    if busy[0] == 0:
                        busy[0] += 1
                        try:
                            chk(self, out)
                        except Exception:  # noqa: BLE001
                            pass
                        finally:
                            busy[0] -= 1
                    return out
                return property(getter, prop.fset, prop.fdel, prop.__doc__)
            setattr(Flwdir, name, mk(prop, chk))
