"""Translator (tie 1, widened from tables to functions): straight-line integer functions of /repo -> Lean `def`s.

`generate()` parses the working tree of /repo ($PYFLWDIR_REPO) with `ast` and translates the functions listed in
`FUNCS` into `lean/PfVerif/Generated/Funcs.lean` (namespace `Pf.Generated.Fn`, defs over `Int`).
`Props/C01_fn.lean` states, per function, that the generated def equals the hand-written model on the documented
domain - for ALL inputs, re-checked against what the code says now on every run.

The fragment (anything else is REFUSED: a marker `def unsupported_<name> : Unit` is emitted, the obligation about
`Fn.<name>` then fails to build and the normal protocol of check.py applies - the translator never guesses):

  statements   docstring, `pass`, `x = e`, `a, b = e` (e tuple-typed, same arity), `x op= e` (op in + - * // %),
               `if / elif / else` (with early `return`), `return e`; every path must end in `return`
  expressions  int literals, True / False, names (parameters and locals only - no globals), `+ - *`, unary `-` `+`,
               `//` -> `Int.fdiv` (floor), `%` -> `Int.fmod` (sign of the divisor), `int(x)` on an int -> x,
               `abs(x)` -> `pyAbs x`, `min(a, b)` / `max(a, b)`, comparisons `< <= > >= == !=` on ints (chained too),
               `and / or / not` on booleans only (no int truthiness), `a if c else b`, tuples, `t[k]` (constant k) on a
               tuple-typed name, `arr[i]` on an array parameter (a total function `Int -> Int`), and calls listed in
               `CALLS` (the module's own `drdc`, translated as a lookup into the 256-entry table of
               `Generated/Tables.lean` that extract.py produced from the same working tree)
  types        int | bool | tuple; every expression is type-checked (`if 3:` or `a and 1` are refused)

Semantics / trusted assumptions: Python ints are unbounded (the fixed-width behaviour of the index dtypes is C16's
subject); `x // 0` and `x % 0` raise in Python but are 0 / x in Lean (obligations are stated for positive sizes); an
array read is a total function (negative-index wrap-around and IndexError are not modelled: obligations are stated for
0 <= i < size); `and`/`or` short-circuiting is unobservable for total pure operands. The translator itself is checked on
every run by `harness/props/c01_fn.py`: a synthetic module with every supported construct (and unsupported ones that
must be refused) is translated and the emitted defs are *evaluated by Lean* (`lean --run`) and compared with Python's
own evaluation on random ints incl. negatives; the same is done for the defs generated from the real functions.
"""
import ast
import hashlib
import os
import sys

HERE = os.path.dirname(os.path.abspath(__file__))
VERIF = os.environ.get("PF_VERIF") or os.path.dirname(HERE)
LEAN_DIR = os.environ.get("PF_LEAN_DIR") or os.path.join(VERIF, "lean")
REPO = os.environ.get("PYFLWDIR_REPO", "/repo")

INT, BOOL = "int", "bool"
ARR = "arr"


def TUP(*ts):
    return ("tuple",) + tuple(ts)


# (lean name, file under pyflwdir/, python function, kinds of the non-int parameters)
FUNCS = [
    ("subidx_2_idx", "upscale.py", "subidx_2_idx", {}),
    ("in_d8", "upscale.py", "in_d8", {}),
    ("cell_edge", "upscale.py", "cell_edge", {}),
    ("d8_downstream_idx", "core_d8.py", "_downstream_idx", {"flwdir_flat": ARR, "shape": TUP(INT, INT)}),
    ("ldd_downstream_idx", "core_ldd.py", "_downstream_idx", {"flwdir_flat": ARR, "shape": TUP(INT, INT)}),
]
# calls that may appear: (file, callee) -> (lean function of the prelude, argument types, result type).
# The callee must be a module-level `def` of the same file (the function extract.py tabulates on 0..255).
CALLS = {
    ("core_d8.py", "drdc"): ("d8DrdcAt", [INT], TUP(INT, INT)),
    ("core_ldd.py", "drdc"): ("lddDrdcAt", [INT], TUP(INT, INT)),
}
PRELUDE = """/-- Python `abs` on an int -/
def pyAbs (x : Int) : Int := if x < 0 then -x else x
/-- `core_d8.drdc(v)` for a uint8 value: the table extract.py evaluated from the same tree ((99, 99) = raised) -/
def d8DrdcAt (v : Int) : Int × Int := Pf.Generated.d8Drdc.getD v.toNat (99, 99)
/-- `core_ldd.drdc(v)` for a uint8 value -/
def lddDrdcAt (v : Int) : Int × Int := Pf.Generated.lddDrdc.getD v.toNat (99, 99)
"""
LEAN_KEYWORDS = {"at", "from", "end", "fun", "let", "if", "then", "else", "do", "in", "with", "match", "have", "show",
                 "by", "def", "theorem", "open", "namespace", "section", "where", "instance", "structure", "class",
                 "import", "for", "return", "mut", "Type", "Prop", "Sort", "this", "using", "calc", "macro", "syntax",
                 "deriving", "extends", "universe", "variable", "example", "axiom", "inductive", "private", "protected",
                 "partial", "unsafe", "noncomputable", "mutual", "nomatch", "nofun", "try", "catch", "finally", "unless",
                 "break", "continue", "true", "false", "pyAbs", "d8DrdcAt", "lddDrdcAt", "Int", "Nat", "Bool", "min", "max",
                 "decide", "fdiv", "fmod"}


class Unsupported(Exception):
    pass


def lean_type(t):
    if t == INT:
        return "Int"
    if t == BOOL:
        return "Bool"
    if t == ARR:
        return "Int → Int"
    if isinstance(t, tuple) and t[0] == "tuple":
        return " × ".join(("(" + lean_type(x) + ")") if isinstance(x, tuple) else lean_type(x) for x in t[1:])
    raise Unsupported(f"type {t!r}")


def lname(py):
    """Lean spelling of a Python local name (ASCII identifiers only)"""
    if not (py.isascii() and py.isidentifier()):
        raise Unsupported(f"name {py!r}")
    return py + "_" if py in LEAN_KEYWORDS or py.endswith("_") and py[:-1] in LEAN_KEYWORDS else py


def proj(text, arity, k):
    """k-th component of a right-nested Lean tuple of the given arity"""
    out = text
    for _ in range(k):
        out += ".2"
    if k < arity - 1:
        out += ".1"
    return out


CMP = {ast.Lt: "<", ast.LtE: "≤", ast.Gt: ">", ast.GtE: "≥", ast.Eq: "=", ast.NotEq: "≠"}
ARITH = {ast.Add: "+", ast.Sub: "-", ast.Mult: "*"}


class Tr:
    def __init__(self, file, module_bound, module_defs):
        self.file = file
        self.module_bound = module_bound  # every name bound at module level
        self.module_defs = module_defs    # those bound by exactly one `def` and nothing else

    # ---------------- expressions ----------------
    def ex(self, n, env):
        if isinstance(n, ast.Constant):
            if isinstance(n.value, bool):
                return ("true" if n.value else "false"), BOOL
            if isinstance(n.value, int):
                return f"({n.value} : Int)", INT
            raise Unsupported(f"constant {n.value!r}")
        if isinstance(n, ast.Name):
            if n.id not in env:
                raise Unsupported(f"name `{n.id}` is not a parameter or a local bound on this path")
            return lname(n.id), env[n.id]
        if isinstance(n, ast.UnaryOp):
            a, t = self.ex(n.operand, env)
            if isinstance(n.op, ast.USub) and t == INT:
                return f"(-{a})", INT
            if isinstance(n.op, ast.UAdd) and t == INT:
                return a, INT
            if isinstance(n.op, ast.Not) and t == BOOL:
                return f"(!{a})", BOOL
            raise Unsupported(f"unary {type(n.op).__name__} on {t}")
        if isinstance(n, ast.BinOp):
            a, ta = self.ex(n.left, env)
            b, tb = self.ex(n.right, env)
            if ta != INT or tb != INT:
                raise Unsupported(f"binary {type(n.op).__name__} on {ta}, {tb}")
            if type(n.op) in ARITH:
                return f"({a} {ARITH[type(n.op)]} {b})", INT
            if isinstance(n.op, ast.FloorDiv):
                return f"(Int.fdiv {a} {b})", INT
            if isinstance(n.op, ast.Mod):
                return f"(Int.fmod {a} {b})", INT
            raise Unsupported(f"binary operator {type(n.op).__name__}")
        if isinstance(n, ast.Compare):
            parts, left = [], n.left
            for op, right in zip(n.ops, n.comparators):
                if type(op) not in CMP:
                    raise Unsupported(f"comparison {type(op).__name__}")
                a, ta = self.ex(left, env)
                b, tb = self.ex(right, env)
                if ta != INT or tb != INT:
                    raise Unsupported(f"comparison of {ta} with {tb}")
                parts.append(f"decide ({a} {CMP[type(op)]} {b})")
                left = right
            return ("(" + " && ".join(parts) + ")") if len(parts) > 1 else f"({parts[0]})", BOOL
        if isinstance(n, ast.BoolOp):
            vals = [self.ex(v, env) for v in n.values]
            if any(t != BOOL for _, t in vals):
                raise Unsupported("and/or on a non-boolean operand")
            return "(" + (" && " if isinstance(n.op, ast.And) else " || ").join(a for a, _ in vals) + ")", BOOL
        if isinstance(n, ast.IfExp):
            c, tc = self.ex(n.test, env)
            a, ta = self.ex(n.body, env)
            b, tb = self.ex(n.orelse, env)
            if tc != BOOL or ta != tb or ta == ARR:
                raise Unsupported("conditional expression: test not boolean or branches of different type")
            return f"(if {c} then {a} else {b})", ta
        if isinstance(n, ast.Tuple):
            if not isinstance(n.ctx, ast.Load) or len(n.elts) < 2:
                raise Unsupported("tuple")
            vals = [self.ex(v, env) for v in n.elts]
            if any(t == ARR for _, t in vals):
                raise Unsupported("array inside a tuple")
            return "(" + ", ".join(a for a, _ in vals) + ")", TUP(*[t for _, t in vals])
        if isinstance(n, ast.Subscript):
            if not isinstance(n.value, ast.Name):
                raise Unsupported("subscript of a non-name")
            v, tv = self.ex(n.value, env)
            if tv == ARR:
                i, ti = self.ex(n.slice, env)
                if ti != INT:
                    raise Unsupported("array index is not an int")
                return f"({v} {i})", INT
            if isinstance(tv, tuple) and isinstance(n.slice, ast.Constant) and isinstance(n.slice.value, int) \
                    and not isinstance(n.slice.value, bool) and 0 <= n.slice.value < len(tv) - 1:
                k = n.slice.value
                return proj(v, len(tv) - 1, k), tv[1 + k]
            raise Unsupported("subscript")
        if isinstance(n, ast.Call):
            if n.keywords or not isinstance(n.func, ast.Name):
                raise Unsupported("call with keywords / of a non-name")
            f = n.func.id
            if f in env:
                raise Unsupported(f"call of the local `{f}`")
            args = [self.ex(a, env) for a in n.args]
            if (self.file, f) in CALLS and f in self.module_defs:
                fn, targs, tres = CALLS[(self.file, f)]
                if [t for _, t in args] != targs:
                    raise Unsupported(f"call of {f} with argument types {[t for _, t in args]}")
                return "(" + fn + " " + " ".join(a for a, _ in args) + ")", tres
            if f in self.module_bound:
                # a module-level binding shadows the builtin of the same name: only the listed callees are known
                raise Unsupported(f"call of the module-level `{f}`")
            if f == "int" and len(args) == 1 and args[0][1] == INT:
                return args[0][0], INT
            if f == "abs" and len(args) == 1 and args[0][1] == INT:
                return f"(pyAbs {args[0][0]})", INT
            if f in ("min", "max") and len(args) == 2 and args[0][1] == INT and args[1][1] == INT:
                return f"({f} {args[0][0]} {args[1][0]})", INT
            raise Unsupported(f"call of `{f}`")
        raise Unsupported(f"expression {type(n).__name__}")

    # ---------------- statements (continuation style: an `if` copies the rest into both branches) ----------------
    def st(self, stmts, env, ind):
        pad = "  " * ind
        if not stmts:
            raise Unsupported("a path ends without `return`")
        s, rest = stmts[0], stmts[1:]
        if isinstance(s, ast.Expr) and isinstance(s.value, ast.Constant) and isinstance(s.value.value, str):
            return self.st(rest, env, ind)
        if isinstance(s, ast.Pass):
            return self.st(rest, env, ind)
        if isinstance(s, ast.Return):
            if s.value is None:
                raise Unsupported("bare return")
            # `rest` (the continuation copied in by an enclosing `if`, or dead code) is never executed
            e, t = self.ex(s.value, env)
            if t == ARR:
                raise Unsupported("returns an array")
            return pad + e + "\n", t
        if isinstance(s, ast.Assign):
            if len(s.targets) != 1:
                raise Unsupported("chained assignment")
            tgt = s.targets[0]
            e, t = self.ex(s.value, env)
            env2 = dict(env)
            if isinstance(tgt, ast.Name):
                if t == ARR:
                    raise Unsupported("array alias")
                env2[tgt.id] = t
                head = f"{pad}let {lname(tgt.id)} : {lean_type(t)} := {e}\n"
            elif isinstance(tgt, ast.Tuple) and all(isinstance(x, ast.Name) for x in tgt.elts):
                if not (isinstance(t, tuple) and len(t) - 1 == len(tgt.elts)):
                    raise Unsupported("unpacking: right-hand side is not a tuple of the same arity")
                names = [x.id for x in tgt.elts]
                if len(set(names)) != len(names):
                    raise Unsupported("unpacking into repeated names")
                for x, tx in zip(names, t[1:]):
                    env2[x] = tx
                # projections of a temporary (`tup'` cannot be a Python name) instead of a pattern `let`: the
                # right-hand side is evaluated once, all targets are bound "simultaneously", proofs need no `match`
                head = f"{pad}let tup' : {lean_type(t)} := {e}\n" + "".join(
                    f"{pad}let {lname(x)} : {lean_type(tx)} := {proj(chr(116) + 'up' + chr(39), len(names), k)}\n"
                    for k, (x, tx) in enumerate(zip(names, t[1:])))
            else:
                raise Unsupported("assignment target")
            body, tb = self.st(rest, env2, ind)
            return head + body, tb
        if isinstance(s, ast.AugAssign):
            if not isinstance(s.target, ast.Name):
                raise Unsupported("augmented assignment target")
            fake = ast.BinOp(left=ast.Name(id=s.target.id, ctx=ast.Load()), op=s.op, right=s.value)
            e, t = self.ex(fake, env)
            env2 = dict(env)
            env2[s.target.id] = t
            body, tb = self.st(rest, env2, ind)
            return f"{pad}let {lname(s.target.id)} : {lean_type(t)} := {e}\n" + body, tb
        if isinstance(s, ast.If):
            c, tc = self.ex(s.test, env)
            if tc != BOOL:
                raise Unsupported("`if` on a non-boolean (truthiness of ints is not translated)")
            a, ta = self.st(list(s.body) + rest, env, ind + 1)
            b, tb = self.st(list(s.orelse) + rest, env, ind + 1)
            if ta != tb:
                raise Unsupported(f"paths return different types ({ta} / {tb})")
            return f"{pad}if {c} then\n{a}{pad}else\n{b}", ta
        raise Unsupported(f"statement {type(s).__name__}")


def find_function(tree, name):
    defs = [s for s in tree.body if isinstance(s, ast.FunctionDef) and s.name == name]
    if len(defs) != 1:
        raise Unsupported(f"{len(defs)} module-level definitions of `{name}`")
    return defs[0]


def module_defs(tree):
    """names bound at module level, and the subset bound by exactly one `def` and nothing else"""
    count, isdef = {}, {}
    for s in tree.body:
        names = []
        if isinstance(s, (ast.FunctionDef, ast.ClassDef, ast.AsyncFunctionDef)):
            names = [s.name]
            if isinstance(s, ast.FunctionDef):
                isdef[s.name] = True
        elif isinstance(s, (ast.Assign, ast.AnnAssign, ast.AugAssign)):
            for t in (s.targets if isinstance(s, ast.Assign) else [s.target]):
                names += [x.id for x in ast.walk(t) if isinstance(x, ast.Name)]
        elif isinstance(s, (ast.Import, ast.ImportFrom)):
            names = [(a.asname or a.name).split(".")[0] for a in s.names]
        else:
            names = [x.id for x in ast.walk(s) if isinstance(x, ast.Name) and isinstance(x.ctx, ast.Store)]
        for x in names:
            count[x] = count.get(x, 0) + 1
    bound = set(count)
    return bound, {x for x in bound if count[x] == 1 and isdef.get(x)}


def translate_function(tree, file, lean_name, py_name, kinds):
    """-> (lean text of one def, None) or (marker text, reason)"""
    try:
        fd = find_function(tree, py_name)
        a = fd.args
        if a.vararg or a.kwarg or a.kwonlyargs or a.posonlyargs:
            raise Unsupported("*args / **kwargs / keyword-only parameters")
        params = [x.arg for x in a.args]
        for k in kinds:
            if k not in params:
                raise Unsupported(f"parameter `{k}` (declared {kinds[k]}) is gone")
        env = {p: kinds.get(p, INT) for p in params}
        for x in ast.walk(fd):
            if isinstance(x, (ast.Global, ast.Nonlocal, ast.Lambda, ast.FunctionDef, ast.NamedExpr)) and x is not fd:
                raise Unsupported(type(x).__name__)
        bound, defs = module_defs(tree)
        body, tres = Tr(file, bound, defs).st(list(fd.body), env, 1)
        sig = " ".join(f"({lname(p)} : {lean_type(env[p])})" for p in params)
        src = ast.unparse(fd)
        doc = (f"/-- `{file[:-3]}.{py_name}({', '.join(params)})` translated by harness/extract_fn.py "
               f"(source sha1 {hashlib.sha1(src.encode()).hexdigest()[:12]}) -/\n")
        return doc + f"def {lean_name} {sig} : {lean_type(tres)} :=\n{body}", None
    except Unsupported as e:
        reason = str(e).replace("-/", "- /")
        return (f"/-- `{file[:-3]}.{py_name}` is OUTSIDE the translated fragment: {reason} -/\n"
                f"def unsupported_{lean_name} : Unit := ()\n"), str(e)


def translate_source(src, file, specs):
    """specs: [(lean name, python name, kinds)] -> (lean text of the defs, {lean name: reason or None})"""
    tree = ast.parse(src)
    out, status = [], {}
    for lean_name, py_name, kinds in specs:
        text, reason = translate_function(tree, file, lean_name, py_name, kinds)
        out.append(text)
        status[lean_name] = reason
    return "\n".join(out), status


def render(repo=None):
    repo = repo or REPO
    out = ["import PfVerif.Generated.Tables",
           "/-! GENERATED by harness/extract_fn.py from /repo - do not edit. Straight-line integer functions of the",
           "library translated statement by statement (`//` = `Int.fdiv`, `%` = `Int.fmod`). -/",
           "namespace Pf.Generated.Fn", "", PRELUDE]
    status = {}
    for lean_name, file, py_name, kinds in FUNCS:
        path = os.path.join(repo, "pyflwdir", file)
        try:
            src = open(path).read()
            text, st = translate_source(src, file, [(lean_name, py_name, kinds)])
        except (OSError, SyntaxError) as e:
            text = f"/-- `{file}` could not be parsed: {type(e).__name__} -/\ndef unsupported_{lean_name} : Unit := ()\n"
            st = {lean_name: f"{type(e).__name__}"}
        out.append(text)
        status.update(st)
    out.append("end Pf.Generated.Fn")
    return "\n".join(out) + "\n", status


def generate(gen_dir, write_if_changed):
    text, _ = render()
    return write_if_changed(os.path.join(gen_dir, "Funcs.lean"), text)


if __name__ == "__main__":
    sys.path.insert(0, HERE)
    text, status = render()
    gen = os.path.join(LEAN_DIR, "PfVerif", "Generated", "Funcs.lean")
    old = open(gen).read() if os.path.exists(gen) else None
    if old != text:
        open(gen, "w").write(text)
    for k, v in status.items():
        print(f"extract_fn: {k}: " + ("translated" if v is None else "REFUSED - " + v))
