"""Translator (tie 1, widened from tables to functions): straight-line integer functions of /repo -> Lean `def`s.

`generate()` parses the working tree of /repo ($PYFLWDIR_REPO) with `ast` and translates the functions listed in
`FUNCS` into `lean/PfVerif/Generated/Funcs.lean` (namespace `Pf.Generated.Fn`, defs over `Int`).
`Props/C01_fn.lean` states, per function, that the generated def equals the hand-written model on the documented
domain - for ALL inputs, re-checked against what the code says now on every run.

The fragment (anything else is REFUSED: a marker `def unsupported_<name> : Unit` is emitted, the obligation about
`Fn.<name>` then fails to build and the normal protocol of check.py applies - the translator never guesses):

  statements   docstring, `pass`, `x = e`, `a, b = e` (e tuple-typed, same arity), `x op= e` (op in + - * // %),
               `if / elif / else` (with early `return`), `return e`; every path must end in `return`
  expressions  int literals, True / False, names (parameters and locals only - no globals), `+ - *`, unary `-` `+`,
               `//` -> `Int.fdiv` (floor), `%` -> `Int.fmod` (sign of the divisor), `int(x)` on an int -> x,
               `abs(x)` -> `pyAbs x`, `min(a, b)` / `max(a, b)`, comparisons `< <= > >= == !=` on ints (chained too),
               `and / or / not` on booleans only (no int truthiness), `a if c else b`, tuples, `t[k]` (constant k) on a
               tuple-typed name, `arr[i]` on an array parameter (a total function `Int -> Int`), and calls listed in
               `CALLS` (the module's own `drdc`, translated as a lookup into the 256-entry table of
               `Generated/Tables.lean` that extract.py produced from the same working tree)
  types        int | bool | tuple; every expression is type-checked (`if 3:` or `a and 1` are refused)

Semantics / trusted assumptions: Python ints are unbounded (the fixed-width behaviour of the index dtypes is C16's
subject); `x // 0` and `x % 0` raise in Python but are 0 / x in Lean (obligations are stated for positive sizes); an
array read is a total function (negative-index wrap-around and IndexError are not modelled: obligations are stated for
0 <= i < size); `and`/`or` short-circuiting is unobservable for total pure operands. The translator itself is checked on
every run by `harness/props/c01_fn.py`: a synthetic module with every supported construct (and unsupported ones that
must be refused) is translated and the emitted defs are *evaluated by Lean* (`lean --run`) and compared with Python's
own evaluation on random ints incl. negatives; the same is done for the defs generated from the real functions.
"""
import ast
import hashlib
import os
import sys

HERE = os.path.dirname(os.path.abspath(__file__))
VERIF = os.environ.get("PF_VERIF") or os.path.dirname(HERE)
LEAN_DIR = os.environ.get("PF_LEAN_DIR") or os.path.join(VERIF, "lean")
REPO = os.environ.get("PYFLWDIR_REPO", "/repo")

INT, BOOL = "int", "bool"
ARR = "arr"


def TUP(*ts):
    return ("tuple",) + tuple(ts)


# (lean name, file under pyflwdir/, python function, kinds of the non-int parameters)
FUNCS = [
    ("subidx_2_idx", "upscale.py", "subidx_2_idx", {}),
    ("in_d8", "upscale.py", "in_d8", {}),
    ("cell_edge", "upscale.py", "cell_edge", {}),
    ("d8_downstream_idx", "core_d8.py", "_downstream_idx", {"flwdir_flat": ARR, "shape": TUP(INT, INT)}),
    ("ldd_downstream_idx", "core_ldd.py", "_downstream_idx", {"flwdir_flat": ARR, "shape": TUP(INT, INT)}),
]
# calls that may appear: (file, callee) -> (lean function of the prelude, argument types, result type).
# The callee must be a module-level `def` of the same file (the function extract.py tabulates on 0..255).
CALLS = {
    ("core_d8.py", "drdc"): ("d8DrdcAt", [INT], TUP(INT, INT)),
    ("core_ldd.py", "drdc"): ("lddDrdcAt", [INT], TUP(INT, INT)),
}
PRELUDE = """/-- Python `abs` on an int -/
def pyAbs (x : Int) : Int := if x < 0 then -x else x
/-- `core_d8.drdc(v)` for a uint8 value: the table extract.py evaluated from the same tree ((99, 99) = raised) -/
def d8DrdcAt (v : Int) : Int × Int := Pf.Generated.d8Drdc.getD v.toNat (99, 99)
/-- `core_ldd.drdc(v)` for a uint8 value -/
def lddDrdcAt (v : Int) : Int × Int := Pf.Generated.lddDrdc.getD v.toNat (99, 99)
"""
LEAN_KEYWORDS = {"at", "from", "end", "fun", "let", "if", "then", "else", "do", "in", "with", "match", "have", "show",
                 "by", "def", "theorem", "open", "namespace", "section", "where", "instance", "structure", "class",
                 "import", "for", "return", "mut", "Type", "Prop", "Sort", "this", "using", "calc", "macro", "syntax",
                 "deriving", "extends", "universe", "variable", "example", "axiom", "inductive", "private", "protected",
                 "partial", "unsafe", "noncomputable", "mutual", "nomatch", "nofun", "try", "catch", "finally", "unless",
                 "break", "continue", "true", "false", "pyAbs", "d8DrdcAt", "lddDrdcAt", "Int", "Nat", "Bool", "min", "max",
                 "decide", "fdiv", "fmod"}


class Unsupported(Exception):
    pass


def lean_type(t):
    if t == INT:
        return "Int"
    if t == BOOL:
        return "Bool"
    if t == ARR:
        return "Int → Int"
    if isinstance(t, tuple) and t[0] == "tuple":
        return " × ".join(("(" + lean_type(x) + ")") if isinstance(x, tuple) else lean_type(x) for x in t[1:])
    raise Unsupported(f"type {t!r}")


def lname(py):
    """Lean spelling of a Python local name (ASCII identifiers only)"""
    if not (py.isascii() and py.isidentifier()):
        raise Unsupported(f"name {py!r}")
    return py + "_" if py in LEAN_KEYWORDS or py.endswith("_") and py[:-1] in LEAN_KEYWORDS else py


def proj(text, arity, k):
    """k-th component of a right-nested Lean tuple of the given arity"""
    out = text
    for _ in range(k):
        out += ".2"
    if k < arity - 1:
        out += ".1"
    return out


CMP = {ast.Lt: "<", ast.LtE: "≤", ast.Gt: ">", ast.GtE: "≥", ast.Eq: "=", ast.NotEq: "≠"}
ARITH = {ast.Add: "+", ast.Sub: "-", ast.Mult: "*"}


class Tr:
    def __init__(self, file, module_bound, module_defs):
        self.file = file
        self.module_bound = module_bound  # every name bound at module level
        self.module_defs = module_defs    # those bound by exactly one `def` and nothing else

    # ---------------- expressions ----------------
    def ex(self, n, env):
        if isinstance(n, ast.Constant):
            if isinstance(n.value, bool):
                return ("true" if n.value else "false"), BOOL
            if isinstance(n.value, int):
                return f"({n.value} : Int)", INT
            raise Unsupported(f"constant {n.value!r}")
        if isinstance(n, ast.Name):
            if n.id not in env:
                raise Unsupported(f"name `{n.id}` is not a parameter or a local bound on this path")
            return lname(n.id), env[n.id]
        if isinstance(n, ast.UnaryOp):
            a, t = self.ex(n.operand, env)
            if isinstance(n.op, ast.USub) and t == INT:
                return f"(-{a})", INT
            if isinstance(n.op, ast.UAdd) and t == INT:
                return a, INT
            if isinstance(n.op, ast.Not) and t == BOOL:
                return f"(!{a})", BOOL
            raise Unsupported(f"unary {type(n.op).__name__} on {t}")
        if isinstance(n, ast.BinOp):
            a, ta = self.ex(n.left, env)
            b, tb = self.ex(n.right, env)
            if ta != INT or tb != INT:
                raise Unsupported(f"binary {type(n.op).__name__} on {ta}, {tb}")
            if type(n.op) in ARITH:
                return f"({a} {ARITH[type(n.op)]} {b})", INT
            if isinstance(n.op, ast.FloorDiv):
                return f"(Int.fdiv {a} {b})", INT
            if isinstance(n.op, ast.Mod):
                return f"(Int.fmod {a} {b})", INT
            raise Unsupported(f"binary operator {type(n.op).__name__}")
        if isinstance(n, ast.Compare):
            parts, left = [], n.left
            for op, right in zip(n.ops, n.comparators):
                if type(op) not in CMP:
                    raise Unsupported(f"comparison {type(op).__name__}")
                a, ta = self.ex(left, env)
                b, tb = self.ex(right, env)
                if ta != INT or tb != INT:
                    raise Unsupported(f"comparison of {ta} with {tb}")
                parts.append(f"decide ({a} {CMP[type(op)]} {b})")
                left = right
            return ("(" + " && ".join(parts) + ")") if len(parts) > 1 else f"({parts[0]})", BOOL
        if isinstance(n, ast.BoolOp):
            vals = [self.ex(v, env) for v in n.values]
            if any(t != BOOL for _, t in vals):
                raise Unsupported("and/or on a non-boolean operand")
            return "(" + (" && " if isinstance(n.op, ast.And) else " || ").join(a for a, _ in vals) + ")", BOOL
        if isinstance(n, ast.IfExp):
            c, tc = self.ex(n.test, env)
            a, ta = self.ex(n.body, env)
            b, tb = self.ex(n.orelse, env)
            if tc != BOOL or ta != tb or ta == ARR:
                raise Unsupported("conditional expression: test not boolean or branches of different type")
            return f"(if {c} then {a} else {b})", ta
        if isinstance(n, ast.Tuple):
            if not isinstance(n.ctx, ast.Load) or len(n.elts) < 2:
                raise Unsupported("tuple")
            vals = [self.ex(v, env) for v in n.elts]
            if any(t == ARR for _, t in vals):
                raise Unsupported("array inside a tuple")
            return "(" + ", ".join(a for a, _ in vals) + ")", TUP(*[t for _, t in vals])
        if isinstance(n, ast.Subscript):
            if not isinstance(n.value, ast.Name):
                raise Unsupported("subscript of a non-name")
            v, tv = self.ex(n.value, env)
            if tv == ARR:
                i, ti = self.ex(n.slice, env)
                if ti != INT:
                    raise Unsupported("array index is not an int")
                return f"({v} {i})", INT
            if isinstance(tv, tuple) and isinstance(n.slice, ast.Constant) and isinstance(n.slice.value, int) \
                    and not isinstance(n.slice.value, bool) and 0 <= n.slice.value < len(tv) - 1:
                k = n.slice.value
                return proj(v, len(tv) - 1, k), tv[1 + k]
            raise Unsupported("subscript")
        if isinstance(n, ast.Call):
            if n.keywords or not isinstance(n.func, ast.Name):
                raise Unsupported("call with keywords / of a non-name")
            f = n.func.id
            if f in env:
                raise Unsupported(f"call of the local `{f}`")
            args = [self.ex(a, env) for a in n.args]
            if (self.file, f) in CALLS and f in self.module_defs:
                fn, targs, tres = CALLS[(self.file, f)]
                if [t for _, t in args] != targs:
                    raise Unsupported(f"call of {f} with argument types {[t for _, t in args]}")
                return "(" + fn + " " + " ".join(a for a, _ in args) + ")", tres
            if f in self.module_bound:
                # a module-level binding shadows the builtin of the same name: only the listed callees are known
                raise Unsupported(f"call of the module-level `{f}`")
            if f == "int" and len(args) == 1 and args[0][1] == INT:
                return args[0][0], INT
            if f == "abs" and len(args) == 1 and args[0][1] == INT:
                return f"(pyAbs {args[0][0]})", INT
            if f in ("min", "max") and len(args) == 2 and args[0][1] == INT and args[1][1] == INT:
                return f"({f} {args[0][0]} {args[1][0]})", INT
            raise Unsupported(f"call of `{f}`")
        raise Unsupported(f"expression {type(n).__name__}")

    # ---------------- statements (continuation style: an `if` copies the rest into both branches) ----------------
    def st(self, stmts, env, ind):
        pad = "  " * ind
        if not stmts:
            raise Unsupported("a path ends without `return`")
        s, rest = stmts[0], stmts[1:]
        if isinstance(s, ast.Expr) and isinstance(s.value, ast.Constant) and isinstance(s.value.value, str):
            return self.st(rest, env, ind)
        if isinstance(s, ast.Pass):
            return self.st(rest, env, ind)
        if isinstance(s, ast.Return):
            if s.value is None:
                raise Unsupported("bare return")
            # `rest` (the continuation copied in by an enclosing `if`, or dead code) is never executed
            e, t = self.ex(s.value, env)
            if t == ARR:
                raise Unsupported("returns an array")
            return pad + e + "\n", t
        if isinstance(s, ast.Assign):
            if len(s.targets) != 1:
                raise Unsupported("chained assignment")
            tgt = s.targets[0]
            e, t = self.ex(s.value, env)
            env2 = dict(env)
            if isinstance(tgt, ast.Name):
                if t == ARR:
                    raise Unsupported("array alias")
                env2[tgt.id] = t
                head = f"{pad}let {lname(tgt.id)} : {lean_type(t)} := {e}\n"
            elif isinstance(tgt, ast.Tuple) and all(isinstance(x, ast.Name) for x in tgt.elts):
                if not (isinstance(t, tuple) and len(t) - 1 == len(tgt.elts)):
                    raise Unsupported("unpacking: right-hand side is not a tuple of the same arity")
                names = [x.id for x in tgt.elts]
                if len(set(names)) != len(names):
                    raise Unsupported("unpacking into repeated names")
                for x, tx in zip(names, t[1:]):
                    env2[x] = tx
                # projections of a temporary (`tup'` cannot be a Python name) instead of a pattern `let`: the
                # right-hand side is evaluated once, all targets are bound "simultaneously", proofs need no `match`
                head = f"{pad}let tup' : {lean_type(t)} := {e}\n" + "".join(
                    f"{pad}let {lname(x)} : {lean_type(tx)} := {proj(chr(116) + 'up' + chr(39), len(names), k)}\n"
                    for k, (x, tx) in enumerate(zip(names, t[1:])))
            else:
                raise Unsupported("assignment target")
            body, tb = self.st(rest, env2, ind)
            return head + body, tb
        if isinstance(s, ast.AugAssign):
            if not isinstance(s.target, ast.Name):
                raise Unsupported("augmented assignment target")
            fake = ast.BinOp(left=ast.Name(id=s.target.id, ctx=ast.Load()), op=s.op, right=s.value)
            e, t = self.ex(fake, env)
            env2 = dict(env)
            env2[s.target.id] = t
            body, tb = self.st(rest, env2, ind)
            return f"{pad}let {lname(s.target.id)} : {lean_type(t)} := {e}\n" + body, tb
        if isinstance(s, ast.If):
            c, tc = self.ex(s.test, env)
            if tc != BOOL:
                raise Unsupported("`if` on a non-boolean (truthiness of ints is not translated)")
            a, ta = self.st(list(s.body) + rest, env, ind + 1)
            b, tb = self.st(list(s.orelse) + rest, env, ind + 1)
            if ta != tb:
                raise Unsupported(f"paths return different types ({ta} / {tb})")
            return f"{pad}if {c} then\n{a}{pad}else\n{b}", ta
        raise Unsupported(f"statement {type(s).__name__}")


def find_function(tree, name):
    defs = [s for s in tree.body if isinstance(s, ast.FunctionDef) and s.name == name]
    if len(defs) != 1:
        raise Unsupported(f"{len(defs)} module-level definitions of `{name}`")
    return defs[0]


def module_defs(tree):
    """names bound at module level, and the subset bound by exactly one `def` and nothing else"""
    count, isdef = {}, {}
    for s in tree.body:
        names = []
        if isinstance(s, (ast.FunctionDef, ast.ClassDef, ast.AsyncFunctionDef)):
            names = [s.name]
            if isinstance(s, ast.FunctionDef):
                isdef[s.name] = True
        elif isinstance(s, (ast.Assign, ast.AnnAssign, ast.AugAssign)):
            for t in (s.targets if isinstance(s, ast.Assign) else [s.target]):
                names += [x.id for x in ast.walk(t) if isinstance(x, ast.Name)]
        elif isinstance(s, (ast.Import, ast.ImportFrom)):
            names = [(a.asname or a.name).split(".")[0] for a in s.names]
        else:
            names = [x.id for x in ast.walk(s) if isinstance(x, ast.Name) and isinstance(x.ctx, ast.Store)]
        for x in names:
            count[x] = count.get(x, 0) + 1
    bound = set(count)
    return bound, {x for x in bound if count[x] == 1 and isdef.get(x)}


def translate_function(tree, file, lean_name, py_name, kinds):
    """-> (lean text of one def, None) or (marker text, reason)"""
    try:
        fd = find_function(tree, py_name)
        a = fd.args
        if a.vararg or a.kwarg or a.kwonlyargs or a.posonlyargs:
            raise Unsupported("*args / **kwargs / keyword-only parameters")
        params = [x.arg for x in a.args]
        for k in kinds:
            if k not in params:
                raise Unsupported(f"parameter `{k}` (declared {kinds[k]}) is gone")
        env = {p: kinds.get(p, INT) for p in params}
        for x in ast.walk(fd):
            if isinstance(x, (ast.Global, ast.Nonlocal, ast.Lambda, ast.FunctionDef, ast.NamedExpr)) and x is not fd:
                raise Unsupported(type(x).__name__)
        bound, defs = module_defs(tree)
        body, tres = Tr(file, bound, defs).st(list(fd.body), env, 1)
        sig = " ".join(f"({lname(p)} : {lean_type(env[p])})" for p in params)
        src = ast.unparse(fd)
        doc = (f"/-- `{file[:-3]}.{py_name}({', '.join(params)})` translated by harness/extract_fn.py "
               f"(source sha1 {hashlib.sha1(src.encode()).hexdigest()[:12]}) -/\n")
        return doc + f"def {lean_name} {sig} : {lean_type(tres)} :=\n{body}", None
    except Unsupported as e:
        reason = str(e).replace("-/", "- /")
        return (f"/-- `{file[:-3]}.{py_name}` is OUTSIDE the translated fragment: {reason} -/\n"
                f"def unsupported_{lean_name} : Unit := ()\n"), str(e)


def translate_source(src, file, specs):
    """specs: [(lean name, python name, kinds)] -> (lean text of the defs, {lean name: reason or None})"""
    tree = ast.parse(src)
    out, status = [], {}
    for lean_name, py_name, kinds in specs:
        text, reason = translate_function(tree, file, lean_name, py_name, kinds)
        out.append(text)
        status[lean_name] = reason
    return "\n".join(out), status


# =========================================================================================
# fragment 2: single-loop sweep kernels over 1-D arrays  ->  Generated/Sweeps.lean (namespace Pf.Generated.Sw)
# =========================================================================================
# function body =  initialisations ; exactly ONE for-loop ; `return`
#   initialisations  `x = a.copy()`, `x = np.full(k | a.shape, v, dtype=…)`, `x = np.zeros(k | a.shape, dtype=…)`,
#                    `x = <scalar expression>`  (every name bound once; `dtype` arguments are ignored)
#   loop header      `for i in seq:` | `for i in seq[::-1]:` | `for i in range(k):`   (no `else`)
#   loop body        `x = e` / `x op= e` on scalars local to the iteration, `a[i] = e`, `a[i] op= e` (op in + - *) on
#                    arrays CREATED by the initialisations (never on a parameter), `if / elif / else`, `continue`, `pass`
#   return           a name or a tuple of names / scalar expressions
#   types            nat (index: loop variable, entries of index arrays / `seq`, sizes, the missing-value parameter),
#                    int (entries of value arrays, nodata; unbounded - float fields are integers under the exact-input
#                    discipline), bool, `Array Int`, `Array Nat`, `List Nat` (seq), `Option (Array Bool)` (mask=None).
#                    A subscript must be of type nat ("anything used as a subscript is an index"); nat has `+ * // %`
#                    but no `-`; comparisons need both sides of the same type; int literals adapt to the other side.
#   expressions      as in fragment 1 plus `a[i]` -> `a[i]!`, `a.size`, `mask is None`, `mask is not None`, `mask[i]`
# The loop becomes `List.foldl (<name>_step params…) state (seq | seq.reverse | List.range k)` with the tuple of the
# written arrays as state and the body as a separate def `<name>_step` (continuation style like fragment 1), so that an
# obligation can be stated per loop step. Writes are `Array.setIfInBounds`, reads `a[i]!` (out-of-range reads give the
# default, out-of-range writes are dropped: IndexError / negative-index wrap-around are not modelled, obligations and
# comparisons are for indices < size). Everything else is REFUSED (nested loops, `while`, `break`, `return` inside the
# loop, list appends, other slices, calls that are not listed, writes to parameters, array aliases, scalars carried
# from one iteration to the next, statements between the loop and the `return`).
NAT, ARRI, ARRN, SEQ, OPTB = "nat", "arri", "arrn", "seq", "optb"
LSTN = "lstn"   # fragment 2b only: a Python list of indices built with `.append` (state of a list-append scan)
_NET = {"idxs_ds": ARRN, "seq": SEQ, "data": ARRI, "nodata": INT}
SWEEPS = [
    ("accuflux", "streams.py", "accuflux", _NET),
    ("accuflux_ds", "streams.py", "accuflux_ds", _NET),
    ("fillnodata_upstream", "core.py", "fillnodata_upstream", _NET),
    ("upstream_count", "core.py", "upstream_count", {"idxs_ds": ARRN, "mv": NAT, "mask": OPTB}),
    ("upstream_sum", "arithmetics.py", "upstream_sum", {"idxs_ds": ARRN, "data": ARRI, "nodata": INT, "mv": NAT}),
    ("main_upstream", "core.py", "main_upstream", {"idxs_ds": ARRN, "uparea": ARRI, "upa_min": INT, "mv": NAT}),
]
SW_PRELUDE = """/-- `mask[i]` of an optional boolean array (only evaluated behind `mask is not None`) -/
def optGetB (m : Option (Array Bool)) (i : Nat) : Bool :=
  match m with
  | none => false
  | some a => a[i]!
"""
SW_TYPES = {NAT: "Nat", INT: "Int", BOOL: "Bool", ARRI: "Array Int", ARRN: "Array Nat", SEQ: "List Nat",
            OPTB: "Option (Array Bool)", LSTN: "List Nat"}
SW_RESERVED = {"optGetB", "Array", "List", "Option", "some", "none", "size", "length", "reverse", "range", "foldl",
               "setIfInBounds", "replicate"}


def sw_type(t):
    if t in SW_TYPES:
        return SW_TYPES[t]
    if isinstance(t, tuple) and t[0] == "tuple":
        return " × ".join(("(" + sw_type(x) + ")") if isinstance(x, tuple) else sw_type(x) for x in t[1:])
    raise Unsupported(f"type {t!r}")


def sname(py):
    if py in SW_RESERVED or py.endswith("'"):
        return py + "_"
    return lname(py)


def numpy_aliases(tree):
    out = set()
    for s in tree.body:
        if isinstance(s, ast.Import):
            for a in s.names:
                if a.name == "numpy":
                    out.add(a.asname or "numpy")
    return out


def is_doc(s):
    return isinstance(s, ast.Expr) and isinstance(s.value, ast.Constant) and isinstance(s.value.value, str)


class SwTr:
    def __init__(self, module_bound, np_names, ext=False, resolver=None):
        self.module_bound = module_bound
        self.np_names = np_names
        self.ext = ext              # fragment 2b (Generated/Sweeps2.lean): the constructs marked `2b` below
        self.resolver = resolver    # 2b: (module alias, function) -> (lean name, params, kinds, result type)
        self.callees = set()        # lean names of the kernels called by the initialisations

    # ---------------- scalar expressions ----------------
    def pair(self, l, r, env):
        """two operands that must have the same type; an int literal adapts to the other side"""
        if isinstance(l, ast.Constant) and not isinstance(r, ast.Constant):
            b, tb = self.ex(r, env)
            a, ta = self.ex(l, env, want=tb)
        else:
            a, ta = self.ex(l, env)
            b, tb = self.ex(r, env, want=ta)
        return a, ta, b, tb

    def ex(self, n, env, want=None):
        if isinstance(n, ast.Constant):
            if isinstance(n.value, bool):
                return ("true" if n.value else "false"), BOOL
            if isinstance(n.value, int):
                if want == NAT:
                    return f"({n.value} : Nat)", NAT
                return f"({n.value} : Int)", INT
            raise Unsupported(f"constant {n.value!r}")
        if isinstance(n, ast.Name):
            if n.id not in env:
                raise Unsupported(f"name `{n.id}` is not a parameter or a local bound on this path")
            return sname(n.id), env[n.id]
        if isinstance(n, ast.UnaryOp):
            a, t = self.ex(n.operand, env)
            if isinstance(n.op, ast.USub) and t == INT:
                return f"(-{a})", INT
            if isinstance(n.op, ast.UAdd) and t in (INT, NAT):
                return a, t
            if isinstance(n.op, ast.Not) and t == BOOL:
                return f"(!{a})", BOOL
            raise Unsupported(f"unary {type(n.op).__name__} on {t}")
        if isinstance(n, ast.BinOp):
            a, ta, b, tb = self.pair(n.left, n.right, env)
            if ta != tb or ta not in (INT, NAT):
                raise Unsupported(f"binary {type(n.op).__name__} on {ta}, {tb}")
            if isinstance(n.op, ast.Sub) and ta == NAT:
                raise Unsupported("subtraction on index-typed operands")
            if type(n.op) in ARITH:
                return f"({a} {ARITH[type(n.op)]} {b})", ta
            if isinstance(n.op, ast.FloorDiv):
                return (f"(Int.fdiv {a} {b})" if ta == INT else f"({a} / {b})"), ta
            if isinstance(n.op, ast.Mod):
                return (f"(Int.fmod {a} {b})" if ta == INT else f"({a} % {b})"), ta
            raise Unsupported(f"binary operator {type(n.op).__name__}")
        if isinstance(n, ast.Compare):
            if len(n.ops) == 1 and isinstance(n.ops[0], (ast.Is, ast.IsNot)):
                c = n.comparators[0]
                if isinstance(n.left, ast.Name) and env.get(n.left.id) == OPTB and isinstance(c, ast.Constant) \
                        and c.value is None:
                    return f"({sname(n.left.id)}.{'isNone' if isinstance(n.ops[0], ast.Is) else 'isSome'})", BOOL
                raise Unsupported("`is` other than `<optional array> is [not] None`")
            parts, left = [], n.left
            for op, right in zip(n.ops, n.comparators):
                if type(op) not in CMP:
                    raise Unsupported(f"comparison {type(op).__name__}")
                a, ta, b, tb = self.pair(left, right, env)
                if ta != tb or ta not in (INT, NAT):
                    raise Unsupported(f"comparison of {ta} with {tb}")
                parts.append(f"decide ({a} {CMP[type(op)]} {b})")
                left = right
            return ("(" + " && ".join(parts) + ")") if len(parts) > 1 else f"({parts[0]})", BOOL
        if isinstance(n, ast.BoolOp):
            vals = [self.ex(v, env) for v in n.values]
            if any(t != BOOL for _, t in vals):
                raise Unsupported("and/or on a non-boolean operand")
            return "(" + (" && " if isinstance(n.op, ast.And) else " || ").join(a for a, _ in vals) + ")", BOOL
        if isinstance(n, ast.IfExp):
            c, tc = self.ex(n.test, env)
            a, ta, b, tb = self.pair(n.body, n.orelse, env)
            if tc != BOOL or ta != tb or ta not in (INT, NAT, BOOL):
                raise Unsupported("conditional expression: test not boolean or branches of different type")
            return f"(if {c} then {a} else {b})", ta
        if isinstance(n, ast.Subscript):
            if not isinstance(n.value, ast.Name) or not isinstance(n.ctx, ast.Load):
                raise Unsupported("subscript of a non-name")
            v, tv = self.ex(n.value, env)
            if tv not in (ARRI, ARRN, OPTB):
                raise Unsupported(f"subscript of a {tv}")
            if isinstance(n.slice, (ast.Slice, ast.Tuple)):
                raise Unsupported("slice / multi-dimensional subscript")
            i, ti = self.ex(n.slice, env, want=NAT)
            if ti != NAT:
                raise Unsupported("subscript is not index-typed (a value is used as an index)")
            if tv == OPTB:
                return f"(optGetB {v} {i})", BOOL
            return f"{v}[{i}]!", (INT if tv == ARRI else NAT)
        if isinstance(n, ast.Attribute):
            if n.attr == "size" and isinstance(n.value, ast.Name) and env.get(n.value.id) in (ARRI, ARRN, SEQ):
                v = sname(n.value.id)
                return (f"{v}.length" if env[n.value.id] == SEQ else f"{v}.size"), NAT
            raise Unsupported(f"attribute .{n.attr}")
        if isinstance(n, ast.Call):
            if n.keywords or not isinstance(n.func, ast.Name):
                raise Unsupported("call with keywords / of a non-name")
            f = n.func.id
            if f in env or f in self.module_bound:
                raise Unsupported(f"call of the local / module-level `{f}`")
            if f == "int" and len(n.args) == 1:
                a, t = self.ex(n.args[0], env, want=want)
                if t in (INT, NAT):
                    return a, t
            if f in ("min", "max") and len(n.args) == 2:
                a, ta, b, tb = self.pair(n.args[0], n.args[1], env)
                if ta == tb and ta in (INT, NAT):
                    return f"({f} {a} {b})", ta
            raise Unsupported(f"call of `{f}`")
        raise Unsupported(f"expression {type(n).__name__}")

    # ---------------- initialisations ----------------
    def size_of(self, n, env):
        if isinstance(n, ast.Attribute) and n.attr == "shape" and isinstance(n.value, ast.Name) \
                and env.get(n.value.id) in (ARRI, ARRN):
            return f"{sname(n.value.id)}.size"     # 1-D arrays: `a.shape` = (a.size,)
        k, tk = self.ex(n, env, want=NAT)
        if tk != NAT:
            raise Unsupported("array size is not index-typed")
        return k

    def init(self, n, env):
        """right-hand side of an initialisation -> (lean, type)"""
        if isinstance(n, ast.Call) and isinstance(n.func, ast.Attribute) and isinstance(n.func.value, ast.Name):
            base, attr = n.func.value.id, n.func.attr
            if attr == "copy" and not n.args and not n.keywords and env.get(base) in (ARRI, ARRN):
                return sname(base), env[base]
            if base in self.np_names and base not in env and attr in ("full", "zeros"):
                if any(k.arg != "dtype" for k in n.keywords) or len(n.args) != (2 if attr == "full" else 1):
                    raise Unsupported(f"np.{attr} with these arguments")
                k = self.size_of(n.args[0], env)
                if attr == "zeros":
                    return f"Array.replicate {k} (0 : Int)", ARRI
                v, tv = self.ex(n.args[1], env)
                if tv not in (INT, NAT):
                    raise Unsupported("np.full with a non-scalar fill value")
                return f"Array.replicate {k} {v}", (ARRI if tv == INT else ARRN)
            if self.ext and self.resolver is not None and base not in env:
                return self.kernel_call(base, attr, n, env)
            raise Unsupported(f"call of `{base}.{attr}`")
        if self.ext and isinstance(n, ast.List) and not n.elts:
            return "([] : List Nat)", LSTN          # 2b: `lst = []` (a list of indices)
        e, t = self.ex(n, env)
        if t not in (INT, NAT, BOOL):
            raise Unsupported("array alias / non-scalar initialisation")
        return e, t

    def kernel_call(self, base, attr, n, env):
        """2b: `x = mod.kernel(a, k=b, …)` where `mod.kernel` is itself a translated sweep kernel; every parameter of the
        callee must be passed explicitly (defaults are not modelled) by a name / scalar expression of the declared kind"""
        lean, cparams, ckinds, tres = self.resolver(base, attr)
        given = {}
        if len(n.args) > len(cparams):
            raise Unsupported(f"call of `{base}.{attr}` with too many arguments")
        for p, a in zip(cparams, n.args):
            if isinstance(a, ast.Starred):
                raise Unsupported("starred argument")
            given[p] = a
        for k in n.keywords:
            if k.arg is None or k.arg not in cparams or k.arg in given:
                raise Unsupported(f"call of `{base}.{attr}`: keyword `{k.arg}`")
            given[k.arg] = k.value
        out = []
        for p in cparams:
            if p not in given:
                raise Unsupported(f"call of `{base}.{attr}` relies on the default of `{p}` (defaults are not modelled)")
            want = ckinds.get(p, INT)
            a = given[p]
            if want in (ARRI, ARRN, SEQ, OPTB):
                if not (isinstance(a, ast.Name) and env.get(a.id) == want):
                    raise Unsupported(f"call of `{base}.{attr}`: argument `{p}` is not a name of kind {want}")
                out.append(sname(a.id))
            else:
                e, t = self.ex(a, env, want=want)
                if t != want:
                    raise Unsupported(f"call of `{base}.{attr}`: argument `{p}` has type {t}, declared {want}")
                out.append(e)
        if tres not in (ARRI, ARRN, INT, NAT, BOOL):
            raise Unsupported(f"call of `{base}.{attr}`: result type")
        self.callees.add(lean)
        return f"{lean} " + " ".join(out), tres

    # ---------------- loop body (continuation style) ----------------
    def body(self, stmts, env, ind, state, frozen):
        """state: names of the written arrays (order fixed); frozen: names that must not be re-bound in the loop"""
        pad = "  " * ind
        if not stmts:
            return pad + tuple_text([sname(x) for x in state]) + "\n"
        s, rest = stmts[0], stmts[1:]
        if is_doc(s) or isinstance(s, ast.Pass):
            return self.body(rest, env, ind, state, frozen)
        if isinstance(s, ast.Continue):
            return pad + tuple_text([sname(x) for x in state]) + "\n"
        if self.ext and isinstance(s, ast.Assign) and len(s.targets) == 1 and isinstance(s.targets[0], ast.Tuple):
            # 2b: `a, b = e1, e2` - all right-hand sides are evaluated first (one temporary tuple), then bound
            tgt, val = s.targets[0], s.value
            if not (isinstance(val, ast.Tuple) and len(val.elts) == len(tgt.elts) >= 2
                    and all(isinstance(x, ast.Name) for x in tgt.elts)):
                raise Unsupported("unpacking: not `names = tuple of the same arity`")
            names = [x.id for x in tgt.elts]
            if len(set(names)) != len(names) or any(x in frozen for x in names):
                raise Unsupported("unpacking into repeated names / names bound outside the loop")
            vals = [self.ex(v, env) for v in val.elts]
            if any(t not in (INT, NAT, BOOL) for _, t in vals):
                raise Unsupported("non-scalar local inside the loop")
            tt = TUP(*[t for _, t in vals])
            env2 = dict(env)
            for x, (_, t) in zip(names, vals):
                env2[x] = t
            head = f"{pad}let tup' : {sw_type(tt)} := ({', '.join(e for e, _ in vals)})\n" + "".join(
                f"{pad}let {sname(x)} : {sw_type(t)} := {proj(chr(116) + 'up' + chr(39), len(names), k)}\n"
                for k, (x, (_, t)) in enumerate(zip(names, vals)))
            return head + self.body(rest, env2, ind, state, frozen)
        if self.ext and isinstance(s, ast.Expr) and isinstance(s.value, ast.Call):
            # 2b: `lst.append(i)` on a list created by `lst = []` -> snoc
            c = s.value
            if not (isinstance(c.func, ast.Attribute) and c.func.attr == "append" and isinstance(c.func.value, ast.Name)
                    and c.func.value.id in state and env.get(c.func.value.id) == LSTN
                    and len(c.args) == 1 and not c.keywords):
                raise Unsupported("expression statement other than `<list created before the loop>.append(index)`")
            e, t = self.ex(c.args[0], env, want=NAT)
            if t != NAT:
                raise Unsupported("a non-index is appended")
            a = sname(c.func.value.id)
            return f"{pad}let {a} : List Nat := {a} ++ [{e}]\n" + self.body(rest, env, ind, state, frozen)
        if isinstance(s, ast.Assign) or isinstance(s, ast.AugAssign):
            if isinstance(s, ast.Assign):
                if len(s.targets) != 1:
                    raise Unsupported("chained assignment")
                tgt, val = s.targets[0], s.value
            else:
                if type(s.op) not in ARITH and not isinstance(s.op, (ast.FloorDiv, ast.Mod)):
                    raise Unsupported(f"augmented assignment {type(s.op).__name__}")
                tgt = s.target
                load = ast.Name(id=tgt.id, ctx=ast.Load()) if isinstance(tgt, ast.Name) else \
                    ast.Subscript(value=tgt.value, slice=tgt.slice, ctx=ast.Load()) if isinstance(tgt, ast.Subscript) else None
                if load is None:
                    raise Unsupported("augmented assignment target")
                val = ast.BinOp(left=load, op=s.op, right=s.value)
            if isinstance(tgt, ast.Name):
                if tgt.id in frozen:
                    raise Unsupported(f"`{tgt.id}` is re-bound inside the loop (value carried between iterations)")
                e, t = self.ex(val, env)
                if t not in (INT, NAT, BOOL):
                    raise Unsupported("non-scalar local inside the loop")
                env2 = dict(env)
                env2[tgt.id] = t
                return f"{pad}let {sname(tgt.id)} : {sw_type(t)} := {e}\n" + self.body(rest, env2, ind, state, frozen)
            if isinstance(tgt, ast.Subscript) and isinstance(tgt.value, ast.Name):
                a = tgt.value.id
                if a not in state or env[a] not in (ARRI, ARRN):
                    raise Unsupported(f"write to `{a}` which is not an array created by the initialisations")
                if isinstance(tgt.slice, (ast.Slice, ast.Tuple)):
                    raise Unsupported("slice assignment")
                i, ti = self.ex(tgt.slice, env, want=NAT)
                if ti != NAT:
                    raise Unsupported("subscript is not index-typed (a value is used as an index)")
                te = INT if env[a] == ARRI else NAT
                e, t = self.ex(val, env, want=te)
                if t != te:
                    raise Unsupported(f"a {t} is stored into `{a}`")
                return (f"{pad}let {sname(a)} : {sw_type(env[a])} := {sname(a)}.setIfInBounds {i} {e}\n"
                        + self.body(rest, env, ind, state, frozen))
            raise Unsupported("assignment target")
        if isinstance(s, ast.If):
            c, tc = self.ex(s.test, env)
            if tc != BOOL:
                raise Unsupported("`if` on a non-boolean (truthiness is not translated)")
            a = self.body(list(s.body) + rest, env, ind + 1, state, frozen)
            b = self.body(list(s.orelse) + rest, env, ind + 1, state, frozen)
            return f"{pad}if {c} then\n{a}{pad}else\n{b}"
        raise Unsupported(f"statement {type(s).__name__} inside the loop")


def tuple_text(xs):
    return xs[0] if len(xs) == 1 else "(" + ", ".join(xs) + ")"


def translate_sweep(tree, file, lean_name, py_name, kinds, ext=False, resolver=None, info=None):
    """-> (lean text: `<name>_step` and `<name>`, None) or (marker text, reason); `ext` switches fragment 2b on;
    `info` (a dict) receives the parameter list and the result type of a translated kernel"""
    try:
        fd = find_function(tree, py_name)
        a = fd.args
        if a.vararg or a.kwarg or a.kwonlyargs or a.posonlyargs:
            raise Unsupported("*args / **kwargs / keyword-only parameters")
        params = [x.arg for x in a.args]
        for k in kinds:
            if k not in params:
                raise Unsupported(f"parameter `{k}` (declared {kinds[k]}) is gone")
        if len(set(sname(p) for p in params)) != len(params):
            raise Unsupported("parameter names collide")
        env = {p: kinds.get(p, INT) for p in params}
        bound, _ = module_defs(tree)
        tr = SwTr(bound, numpy_aliases(tree), ext, resolver)
        stmts = [s for s in fd.body if not is_doc(s) and not isinstance(s, ast.Pass)]
        loops = [k for k, s in enumerate(stmts) if isinstance(s, ast.For)]
        if len(loops) != 1:
            raise Unsupported(f"{len(loops)} top-level for-loops (exactly one is translated)")
        pre, loop, post = stmts[:loops[0]], stmts[loops[0]], stmts[loops[0] + 1:]
        # ---- initialisations
        lets, locals_ = "", []
        for s in pre:
            if not (isinstance(s, ast.Assign) and len(s.targets) == 1 and isinstance(s.targets[0], ast.Name)):
                raise Unsupported(f"statement {type(s).__name__} before the loop")
            x = s.targets[0].id
            if x in env:
                raise Unsupported(f"`{x}` is bound twice before the loop")
            e, t = tr.init(s.value, env)
            lets += f"  let {sname(x)} : {sw_type(t)} := {e}\n"
            env[x] = t
            locals_.append(x)
        # ---- loop header
        if loop.orelse or not isinstance(loop.target, ast.Name) or loop.target.id in env:
            raise Unsupported("loop with `else`, a non-name target or a target that shadows a name")
        it, var = loop.iter, loop.target.id
        if isinstance(it, ast.Name) and env.get(it.id) == SEQ:
            iter_text = sname(it.id)
        elif isinstance(it, ast.Subscript) and isinstance(it.value, ast.Name) and env.get(it.value.id) == SEQ \
                and isinstance(it.slice, ast.Slice) and it.slice.lower is None and it.slice.upper is None \
                and isinstance(it.slice.step, ast.UnaryOp) and isinstance(it.slice.step.op, ast.USub) \
                and isinstance(it.slice.step.operand, ast.Constant) and type(it.slice.step.operand.value) is int \
                and it.slice.step.operand.value == 1:
            iter_text = sname(it.value.id) + ".reverse"
        elif isinstance(it, ast.Call) and isinstance(it.func, ast.Name) and it.func.id == "range" \
                and "range" not in env and "range" not in bound and len(it.args) == 1 and not it.keywords:
            k, tk = tr.ex(it.args[0], env, want=NAT)
            if tk != NAT:
                raise Unsupported("range() of a non-index")
            iter_text = f"(List.range {k})"
        else:
            raise Unsupported("loop iterable is not `seq`, `seq[::-1]` or `range(k)`")
        # ---- state = arrays written in the body
        written = []
        for x in ast.walk(loop):
            if isinstance(x, (ast.For, ast.While, ast.AsyncFor)) and x is not loop:
                raise Unsupported("nested loop")
            tgts = x.targets if isinstance(x, ast.Assign) else [x.target] if isinstance(x, ast.AugAssign) else []
            for t in tgts:
                if isinstance(t, ast.Subscript) and isinstance(t.value, ast.Name) and t.value.id not in written:
                    written.append(t.value.id)
            if ext and isinstance(x, ast.Call) and isinstance(x.func, ast.Attribute) and x.func.attr == "append" \
                    and isinstance(x.func.value, ast.Name) and x.func.value.id not in written:
                written.append(x.func.value.id)
        for w in written:
            if w not in locals_ or env[w] not in ((ARRI, ARRN, LSTN) if ext else (ARRI, ARRN)):
                raise Unsupported(f"write to `{w}` which is not an array created by the initialisations")
        state = [x for x in locals_ if x in written]
        if not state:
            raise Unsupported("the loop writes no array")
        names = params + locals_ + [var]
        if len(set(sname(p) for p in names)) != len(names) or "st'" in names \
                or any(sname(p) in tr.callees for p in names):
            raise Unsupported("names collide")
        env_body = dict(env)
        env_body[var] = NAT
        frozen = set(env) | {var}
        body = tr.body(list(loop.body), env_body, 1, state, frozen)
        # ---- return
        if len(post) != 1 or not isinstance(post[0], ast.Return) or post[0].value is None:
            raise Unsupported("the loop is not followed by exactly one `return <value>`")
        rv = post[0].value
        elts = list(rv.elts) if isinstance(rv, ast.Tuple) else [rv]
        rets = []
        for e in elts:
            if isinstance(e, ast.Name) and env.get(e.id) in (ARRI, ARRN):
                rets.append((sname(e.id), env[e.id]))
            elif ext and isinstance(e, ast.Call) and isinstance(e.func, ast.Attribute) and e.func.attr == "array" \
                    and isinstance(e.func.value, ast.Name) and e.func.value.id in tr.np_names \
                    and e.func.value.id not in env and 1 <= len(e.args) <= 2 and isinstance(e.args[0], ast.Name) \
                    and env.get(e.args[0].id) == LSTN and all(k.arg == "dtype" for k in e.keywords) \
                    and len(e.args) + len(e.keywords) <= 2:
                rets.append((sname(e.args[0].id), LSTN))    # 2b: `np.array(lst, dtype)` - the list itself
            else:
                txt, t = tr.ex(e, env)
                if t not in (INT, NAT, BOOL):
                    raise Unsupported("returned value")
                rets.append((txt, t))
        tres = rets[0][1] if len(rets) == 1 else TUP(*[t for _, t in rets])
        ret_text = tuple_text([x for x, _ in rets])
        # ---- emit
        st_t = sw_type(env[state[0]]) if len(state) == 1 else sw_type(TUP(*[env[x] for x in state]))
        fixed = params + [x for x in locals_ if x not in state]
        sig = " ".join(f"({sname(p)} : {sw_type(env[p])})" for p in params)
        sig_fixed = " ".join(f"({sname(p)} : {sw_type(env[p])})" for p in fixed)
        args_fixed = " ".join(sname(p) for p in fixed)
        src = ast.unparse(fd)
        sha = hashlib.sha1(src.encode()).hexdigest()[:12]
        if len(state) == 1:
            st_param = f"({sname(state[0])} : {st_t})"
            unpack = ""
            fold = (f"  let {sname(state[0])} : {st_t} := List.foldl ({lean_name}_step {args_fixed}) "
                    f"{sname(state[0])} {iter_text}\n")
        else:
            st_param = f"(st' : {st_t})"
            unpack = "".join(f"  let {sname(x)} : {sw_type(env[x])} := {proj(chr(115) + chr(116) + chr(39), len(state), k)}\n"
                             for k, x in enumerate(state))
            fold = (f"  let st' : {st_t} := List.foldl ({lean_name}_step {args_fixed}) "
                    f"{tuple_text([sname(x) for x in state])} {iter_text}\n" + unpack)
        text = (f"/-- one iteration of the loop of `{file[:-3]}.{py_name}` (loop variable `{var}`; state: "
                f"{', '.join(state)}) -/\n"
                f"def {lean_name}_step {sig_fixed} {st_param} ({sname(var)} : Nat) : {st_t} :=\n{unpack}{body}\n"
                f"/-- `{file[:-3]}.{py_name}({', '.join(params)})` translated by harness/extract_fn.py "
                f"(source sha1 {sha}) -/\n"
                f"def {lean_name} {sig} : {sw_type(tres)} :=\n{lets}{fold}  {ret_text}\n")
        if info is not None:
            info.update(params=params, tres=tres, kinds=dict(kinds))
        return text, None
    except Unsupported as e:
        reason = str(e).replace("-/", "- /")
        return (f"/-- `{file[:-3]}.{py_name}` is OUTSIDE the translated sweep fragment: {reason} -/\n"
                f"def unsupported_{lean_name} : Unit := ()\n"), str(e)


def translate_sweep_source(src, file, specs):
    """specs: [(lean name, python name, kinds)] -> (lean text of the defs, {lean name: reason or None})"""
    tree = ast.parse(src)
    out, status = [], {}
    for lean_name, py_name, kinds in specs:
        text, reason = translate_sweep(tree, file, lean_name, py_name, kinds)
        out.append(text)
        status[lean_name] = reason
    return "\n".join(out), status


# -----------------------------------------------------------------------------------------
# fragment 2b (extension C08_fn) -> Generated/Sweeps2.lean (same namespace, imports Sweeps.lean). Fragment 2 plus:
#   loop body        `a, b = e1, e2` (names local to the iteration, scalar right-hand sides, evaluated before binding),
#                    `lst.append(e)` (e index-typed) on a list created by `lst = []` before the loop -> `lst ++ [e]`
#   initialisations  `lst = []` (a list of indices), `x = mod.kernel(args, kw=…)` where `mod` is bound exactly once at
#                    module level by `from . import mod` and `mod.kernel` is listed in `KCALLS` and is itself translated
#                    (fragment 2) from the same working tree; every parameter of the callee passed explicitly
#   return           also `np.array(lst[, dtype])` of such a list (returned as `List Nat`)
# The state of the fold may therefore contain `List Nat` components. Everything else is refused as in fragment 2;
# `translate_sweep_source` (fragment 2) keeps refusing these constructs.
_ORD = {"idxs_ds": ARRN, "seq": SEQ, "mask": OPTB}
SWEEPS2 = [
    ("strahler_order", "streams.py", "strahler_order", _ORD),
    ("stream_order", "streams.py", "stream_order", dict(_ORD, idxs_us_main=ARRN, mv=NAT)),
    ("pit_indices", "core.py", "pit_indices", {"idxs_ds": ARRN}),
    ("tributaries", "basins.py", "_tributaries", {"idxs_ds": ARRN, "seq": SEQ, "strord": ARRI}),
]
# kernels that may be called by an initialisation: (module, function) -> lean name in SWEEPS
KCALLS = {("core", "upstream_count"): "upstream_count"}


def sibling_imports(tree):
    """local name -> module, for names bound exactly once at module level, by `from . import m` / `from pyflwdir import m`"""
    bound, _ = module_defs(tree)
    count, out = {}, {}
    for s in ast.walk(tree):
        if isinstance(s, ast.Name) and isinstance(s.ctx, (ast.Store, ast.Del)):
            count[s.id] = count.get(s.id, 0) + 1
        elif isinstance(s, (ast.FunctionDef, ast.ClassDef, ast.AsyncFunctionDef)):
            count[s.name] = count.get(s.name, 0) + 1
            for a in s.args.args + s.args.kwonlyargs + s.args.posonlyargs if not isinstance(s, ast.ClassDef) else []:
                count[a.arg] = count.get(a.arg, 0) + 1
        elif isinstance(s, (ast.Import, ast.ImportFrom)):
            for a in s.names:
                x = (a.asname or a.name).split(".")[0]
                count[x] = count.get(x, 0) + 1
    for s in tree.body:
        if isinstance(s, ast.ImportFrom) and ((s.level == 1 and s.module is None) or (s.level == 0 and s.module == "pyflwdir")):
            for a in s.names:
                x = a.asname or a.name
                if count.get(x) == 1 and x in bound:
                    out[x] = a.name
    return out


def make_resolver(tree, sources, kcalls=None, sweeps=None):
    """sources: module name -> source text (or a callable returning it) of the sibling modules"""
    kcalls = KCALLS if kcalls is None else kcalls
    sweeps = SWEEPS if sweeps is None else sweeps
    sib = sibling_imports(tree)

    def resolver(base, attr):
        if base not in sib:
            raise Unsupported(f"call of `{base}.{attr}`")
        mod = sib[base]
        if (mod, attr) not in kcalls:
            raise Unsupported(f"call of `{base}.{attr}` (not a listed kernel)")
        lean = kcalls[(mod, attr)]
        spec = [x for x in sweeps if x[0] == lean and x[1] == mod + ".py" and x[2] == attr]
        if len(spec) != 1:
            raise Unsupported(f"callee `{mod}.{attr}` is not a translated kernel")
        try:
            src = sources[mod]() if callable(sources.get(mod)) else sources[mod]
            ctree = ast.parse(src)
        except (KeyError, OSError, SyntaxError) as e:
            raise Unsupported(f"callee module `{mod}` cannot be read: {type(e).__name__}")
        info = {}
        _, reason = translate_sweep(ctree, mod + ".py", lean, attr, spec[0][3], info=info)
        if reason is not None:
            raise Unsupported(f"callee `{mod}.{attr}` is outside the fragment: {reason}")
        return lean, info["params"], info["kinds"], info["tres"]
    return resolver


def translate_sweep2_source(src, file, specs, sources=None, kcalls=None, sweeps=None):
    """fragment 2b: specs [(lean name, python name, kinds)] -> (lean text, {lean name: reason or None})"""
    tree = ast.parse(src)
    res = make_resolver(tree, sources or {}, kcalls, sweeps)
    out, status = [], {}
    for lean_name, py_name, kinds in specs:
        text, reason = translate_sweep(tree, file, lean_name, py_name, kinds, ext=True, resolver=res)
        out.append(text)
        status[lean_name] = reason
    return "\n".join(out), status


def render_sweeps2(repo=None):
    repo = repo or REPO
    out = ["import PfVerif.Generated.Sweeps",
           "/-! GENERATED by harness/extract_fn.py from /repo - do not edit. Sweep kernels of fragment 2b (tuple assignment,",
           "an initialisation that calls a translated kernel of `Sweeps.lean`, list-append scans with a `List Nat` state).",
           "Value arrays are unbounded `Int` (the uint8 / int32 storage of the code is the subject of C16). -/",
           "set_option linter.unusedVariables false", "namespace Pf.Generated.Sw", ""]
    status = {}

    def reader(mod):
        return lambda: open(os.path.join(repo, "pyflwdir", mod + ".py")).read()
    sources = {m: reader(m) for (m, _f) in KCALLS}
    for lean_name, file, py_name, kinds in SWEEPS2:
        path = os.path.join(repo, "pyflwdir", file)
        try:
            src = open(path).read()
            text, st = translate_sweep2_source(src, file, [(lean_name, py_name, kinds)], sources)
        except (OSError, SyntaxError) as e:
            text = f"/-- `{file}` could not be parsed: {type(e).__name__} -/\ndef unsupported_{lean_name} : Unit := ()\n"
            st = {lean_name: f"{type(e).__name__}"}
        out.append(text)
        status.update(st)
    out.append("end Pf.Generated.Sw")
    return "\n".join(out) + "\n", status


def render_sweeps(repo=None):
    repo = repo or REPO
    out = ["/-! GENERATED by harness/extract_fn.py from /repo - do not edit. Single-loop sweep kernels of the library",
           "translated statement by statement: the loop is a `List.foldl` of `<name>_step` over `seq` / `seq.reverse` /",
           "`List.range k`; index arrays are `Array Nat`, value arrays `Array Int` (unbounded). -/",
           "set_option linter.unusedVariables false", "namespace Pf.Generated.Sw", "", SW_PRELUDE]
    status = {}
    for lean_name, file, py_name, kinds in SWEEPS:
        path = os.path.join(repo, "pyflwdir", file)
        try:
            src = open(path).read()
            text, st = translate_sweep_source(src, file, [(lean_name, py_name, kinds)])
        except (OSError, SyntaxError) as e:
            text = f"/-- `{file}` could not be parsed: {type(e).__name__} -/\ndef unsupported_{lean_name} : Unit := ()\n"
            st = {lean_name: f"{type(e).__name__}"}
        out.append(text)
        status.update(st)
    out.append("end Pf.Generated.Sw")
    return "\n".join(out) + "\n", status


def render(repo=None):
    repo = repo or REPO
    out = ["import PfVerif.Generated.Tables",
           "/-! GENERATED by harness/extract_fn.py from /repo - do not edit. Straight-line integer functions of the",
           "library translated statement by statement (`//` = `Int.fdiv`, `%` = `Int.fmod`). -/",
           "namespace Pf.Generated.Fn", "", PRELUDE]
    status = {}
    for lean_name, file, py_name, kinds in FUNCS:
        path = os.path.join(repo, "pyflwdir", file)
        try:
            src = open(path).read()
            text, st = translate_source(src, file, [(lean_name, py_name, kinds)])
        except (OSError, SyntaxError) as e:
            text = f"/-- `{file}` could not be parsed: {type(e).__name__} -/\ndef unsupported_{lean_name} : Unit := ()\n"
            st = {lean_name: f"{type(e).__name__}"}
        out.append(text)
        status.update(st)
    out.append("end Pf.Generated.Fn")
    return "\n".join(out) + "\n", status


def generate(gen_dir, write_if_changed):
    text, _ = render()
    a = write_if_changed(os.path.join(gen_dir, "Funcs.lean"), text)
    text2, _ = render_sweeps()
    b = write_if_changed(os.path.join(gen_dir, "Sweeps.lean"), text2)
    text3, _ = render_sweeps2()
    c = write_if_changed(os.path.join(gen_dir, "Sweeps2.lean"), text3)
    return bool(a) or bool(b) or bool(c)


if __name__ == "__main__":
    sys.path.insert(0, HERE)
    text, status = render()
    gen = os.path.join(LEAN_DIR, "PfVerif", "Generated", "Funcs.lean")
    old = open(gen).read() if os.path.exists(gen) else None
    if old != text:
        open(gen, "w").write(text)
    text2, status2 = render_sweeps()
    gen2 = os.path.join(LEAN_DIR, "PfVerif", "Generated", "Sweeps.lean")
    old2 = open(gen2).read() if os.path.exists(gen2) else None
    if old2 != text2:
        open(gen2, "w").write(text2)
    text3, status3 = render_sweeps2()
    gen3 = os.path.join(LEAN_DIR, "PfVerif", "Generated", "Sweeps2.lean")
    old3 = open(gen3).read() if os.path.exists(gen3) else None
    if old3 != text3:
        open(gen3, "w").write(text3)
    status2 = dict(status2, **status3)
    for k, v in list(status.items()) + list(status2.items()):
        print(f"extract_fn: {k}: " + ("translated" if v is None else "REFUSED - " + v))
