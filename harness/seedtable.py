"""Generate the seeded-change table (markdown) from seeded/*/meta.json + result.json."""
import glob, json, os
VERIF = os.path.dirname(os.path.dirname(os.path.abspath(__file__)))
rows = []
for d in sorted(glob.glob(os.path.join(VERIF, "seeded", "C*-*"))):
    sid = os.path.basename(d)
    meta = json.load(open(os.path.join(d, "meta.json")))
    rp = os.path.join(d, "result.json")
    res = json.load(open(rp)) if os.path.exists(rp) else {}
    caught = []
    for run in res.get("runs", []):
        for p, c in run.get("checks", {}).items():
            if c["exit"] == 1:
                kind = (c.get("replay") or {}).get("kind") or "violation"
                caught.append(f"{p} {run.get('tier', 'quick')} ({'failing input' if kind == 'failing-input' else 'no-failing-input-found'})")
    first = res.get("first_run_caught")
    note = res.get("note", "")
    where = f"{meta.get('file', '').replace('pyflwdir/', '')}:{meta.get('function', '')}"
    rows.append(f"| {sid} | {where} | {meta.get('summary', '')[:170].replace('|', '/')} | "
                f"{'yes' if first else 'no'} | {'; '.join(dict.fromkeys(caught)) or '**not caught**'} | {note} |")
print("| id | site | change (needs …) | caught as first built | caught by (now) | strengthening |")
print("|----|------|------------------|-----------------------|-----------------|---------------|")
print("\n".join(rows))
