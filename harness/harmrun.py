"""Evaluate one HARMLESS change (false-alarm test): harmrun.py <dir with patch.diff demo.py meta.json> [--all]

Applies the patch to a scratch worktree of /repo, confirms the test suite passes and the change's own
differential demo exits 0, then runs the quick check of every property the source fingerprints say the change
concerns (always including the change's own property; --all: all twenty) against the patched tree and reports
the exit codes. Expected: every check exits 0. Cleans up; keeps the evidence files as they were."""
import json
import os
import shutil
import subprocess
import sys
import tempfile
import time

HERE = os.path.dirname(os.path.abspath(__file__))
VERIF = os.path.dirname(HERE)
sys.path.insert(0, HERE)


def sh(cmd, cwd=None, env=None, timeout=3600):
    p = subprocess.run(cmd, cwd=cwd, env=env, stdout=subprocess.PIPE, stderr=subprocess.STDOUT, timeout=timeout)
    return p.returncode, p.stdout.decode(errors="replace")


def main():
    d = os.path.abspath(sys.argv[1])
    meta = json.load(open(os.path.join(d, "meta.json")))
    scratch = tempfile.mkdtemp(prefix="pfharm_")
    os.rmdir(scratch)
    out = {"dir": os.path.basename(d), "property": meta["property"], "summary": meta.get("summary"),
           "observable_difference": meta.get("observable_difference")}
    evbak = tempfile.mkdtemp(prefix="evbak")
    for f in os.listdir(os.path.join(VERIF, "evidence")):
        shutil.copy(os.path.join(VERIF, "evidence", f), evbak)
    try:
        rc, o = sh(["git", "-C", "/repo", "worktree", "add", "--detach", "-q", scratch, "HEAD"])
        assert rc == 0, o
        rc, o = sh(["git", "apply", os.path.join(d, "patch.diff")], cwd=scratch)
        out["patch_applies"] = rc == 0
        if rc != 0:
            out["error"] = o[-300:]
            return out
        rc, o = sh(["/venv/bin/python", "-m", "pytest", "-q", "-p", "no:cacheprovider", "-x"], cwd=scratch)
        out["tests_pass"] = rc == 0
        os.makedirs(os.path.join(scratch, "seed_out"), exist_ok=True)
        src = os.path.join(d, "orig")
        if os.path.isdir(src):
            shutil.copytree(src, os.path.join(scratch, "seed_out", "orig"))
        shutil.copy(os.path.join(d, "demo.py"), os.path.join(scratch, "seed_out", "demo.py"))
        rc, o = sh(["/venv/bin/python", "seed_out/demo.py"], cwd=scratch, env=dict(os.environ, NUMBA_DISABLE_JIT="1"), timeout=1800)
        out["demo_with_change"] = rc
        import fingerprint
        allp = ["C%02d" % i for i in range(1, 21)]
        props = allp if "--all" in sys.argv else [p for p in allp if p == meta["property"] or fingerprint.changed_for(p, scratch)]
        out["changed_functions"] = [f"{f}:{k}" for f, k in fingerprint.diff(scratch)]
        out["checks"] = {}
        for p in props:
            t0 = time.time()
            env = dict(os.environ, PYFLWDIR_REPO=scratch, VERIF_SEED=os.environ.get("VERIF_SEED", "0"))
            rc, o = sh([os.path.join(VERIF, "check"), "quick", p], cwd=VERIF, env=env, timeout=7200)
            vio = [ln for ln in o.splitlines() if ln.startswith("VIOLATION")]
            rep = None
            if vio and "replay=" in vio[0]:
                try:
                    body = json.load(open(os.path.join(VERIF, vio[0].split("replay=")[1].split()[0])))
                    f = body.get("failure") or {}
                    rep = {"kind": body.get("kind"), "fkind": f.get("kind"), "what": f.get("what", "")[:300],
                           "op": (f.get("desc") or {}).get("op"), "broken_theorems": body.get("broken_theorems")}
                except Exception:  # noqa: BLE001
                    pass
            out["checks"][p] = {"exit": rc, "violation": vio[:1], "replay": rep, "wall_s": round(time.time() - t0, 1),
                                "tail": o.strip().splitlines()[-1][:200] if o.strip() else ""}
        return out
    finally:
        sh(["git", "-C", "/repo", "worktree", "remove", "--force", scratch])
        shutil.rmtree(scratch, ignore_errors=True)
        sh(["git", "-C", "/repo", "worktree", "prune"])
        for f in os.listdir(evbak):
            shutil.copy(os.path.join(evbak, f), os.path.join(VERIF, "evidence", f))
        shutil.rmtree(evbak, ignore_errors=True)
        sh(["/venv/bin/python", os.path.join(HERE, "extract.py")])


if __name__ == "__main__":
    print(json.dumps(main(), indent=1))
