"""Translator for C12: extract the caching / memoisation protocol of Flwdir and FlwdirRaster from
the source (AST) and emit it as a Lean table (Generated/CacheProtocol.lean).

Per public method / property of each class (inherited methods are resolved against the class they
run in, `super().m()` and `self.m()` / `self.prop` calls are followed transitively):

* cache reads   `self._cached[k]` / `k in self._cached` and the parameters the *uncached* computation
                of the same value depends on that are NOT forced to None by the guard of the read;
* cache writes  `self._cached.update(k=expr)` with the parameters `expr` depends on
                (intra-procedural, flow-insensitive data dependence) that are not neutralised by an
                enclosing `p is None` guard, and whether the write is guarded by `self.cache`;
* cache pops    `self._cached.pop(k, ...)` (also through `for key in (...)`);
* memo attributes (`_seq`, `_nnodes`, `_pit`) set / reset to None, with the same taint information;
* abstract-state mutations: `self.idxs_ds[...] = ...` -> "ds", `self.transform = ` -> "transform",
  `self.latlon = ` -> "latlon".

* in-place writes into values that LIVE in the cache (field `inplace`, see the section "alias / in-place analysis"
  below): the protocol theorem `history_independent` needs a stored value to be immutable; a method that writes
  through a name that may alias `self._cached[k]` / a memo attribute breaks that silently.

The extractor is part of the trusted base; harness/props/c12.py cross-checks it dynamically
(the `_cached` key set observed after every operation of a random history must be the predicted one).
"""
import ast
import json
import os

MEMO_ATTRS = {"_seq", "_nnodes", "_pit"}
STATE_ATTRS = {"transform": "transform", "latlon": "latlon"}
ORDER_ONLY_PARAMS = {("order_cells", "method")}  # chooses among valid orders; see Spec in Props/C12.lean


def _names(node):
    return {n.id for n in ast.walk(node) if isinstance(n, ast.Name)}


def _is_self_attr(node, attr=None):
    return (isinstance(node, ast.Attribute) and isinstance(node.value, ast.Name) and node.value.id == "self"
            and (attr is None or node.attr == attr))


def _is_cached(node):
    return _is_self_attr(node, "_cached")


class MethodInfo:
    def __init__(self, cls, name, node, is_property):
        self.cls, self.name, self.node, self.is_property = cls, name, node, is_property
        a = node.args
        self.params = [x.arg for x in a.args[1:]] + [x.arg for x in a.kwonlyargs]
        if a.vararg:
            self.params.append(a.vararg.arg)
        if a.kwarg:
            self.params.append(a.kwarg.arg)
        # local data dependence: var -> set of names it is computed from
        self.deps = {}
        for n in ast.walk(node):
            if isinstance(n, (ast.Assign, ast.AugAssign, ast.AnnAssign)):
                targets = n.targets if isinstance(n, ast.Assign) else [n.target]
                val = n.value
                if val is None:
                    continue
                for t in targets:
                    for nm in _names(t):
                        self.deps.setdefault(nm, set()).update(_names(val))
            elif isinstance(n, ast.For):
                for nm in _names(n.target):
                    self.deps.setdefault(nm, set()).update(_names(n.iter))

    def taint(self, expr_names):
        seen, todo = set(), list(expr_names)
        while todo:
            x = todo.pop()
            if x in seen:
                continue
            seen.add(x)
            todo.extend(self.deps.get(x, ()))
        return sorted(p for p in self.params if p in seen)


def _guard_facts(test, positive):
    """returns (none_params, cache_flag, cached_keys_tested) implied when `test` is `positive`"""
    none_p, flag, keys = set(), False, set()
    conj = []
    if positive:
        conj = test.values if isinstance(test, ast.BoolOp) and isinstance(test.op, ast.And) else [test]
    else:
        # not (a or b) = not a and not b ; otherwise nothing known except single negated atoms
        if isinstance(test, ast.BoolOp) and isinstance(test.op, ast.Or):
            conj = [ast.UnaryOp(op=ast.Not(), operand=v) for v in test.values]
        elif isinstance(test, ast.BoolOp):
            conj = []
        else:
            conj = [ast.UnaryOp(op=ast.Not(), operand=test)]
    for c in conj:
        neg = False
        while isinstance(c, ast.UnaryOp) and isinstance(c.op, ast.Not):
            neg = not neg
            c = c.operand
        if isinstance(c, ast.Compare) and len(c.ops) == 1 and isinstance(c.left, ast.Name) \
                and isinstance(c.comparators[0], ast.Constant) and c.comparators[0].value is None:
            if (isinstance(c.ops[0], ast.Is) and not neg) or (isinstance(c.ops[0], ast.IsNot) and neg):
                none_p.add(c.left.id)
        elif _is_self_attr(c, "cache") and not neg:
            flag = True
        elif isinstance(c, ast.Compare) and len(c.ops) == 1 and isinstance(c.ops[0], ast.In) \
                and isinstance(c.left, ast.Constant) and _is_cached(c.comparators[0]) and not neg:
            keys.add(c.left.value)
    return none_p, flag, keys


def analyse_method(mi, class_props):
    """returns the local effect summary of one method"""
    eff = {"reads": [], "writes": [], "pops": [], "memo_set": [], "memo_reset": [], "mutates": [], "calls": []}

    def visit(stmts, none_p, flag, else_of=None, g=()):
        for st in stmts:
            if isinstance(st, ast.If):
                p1, f1, k1 = _guard_facts(st.test, True)
                p0, f0, _ = _guard_facts(st.test, False)
                # a cache read branch: remember the sibling computation for the unguarded-param rule
                visit(st.body, none_p | p1, flag or f1, else_of=(st, k1, none_p | p1), g=g + ((st.lineno, 1),))
                visit(st.orelse, none_p | p0, flag or f0, g=g + ((st.lineno, 0),))
                if k1:
                    # value computed in the else branch: which params does it depend on?
                    names = set()
                    for s in st.orelse:
                        names |= _names(s)
                    t = [p for p in mi.taint(names) if p not in (none_p | p1)]
                    for k in sorted(k1):
                        eff["reads"].append({"key": k, "unguarded": t})
                continue
            if isinstance(st, ast.For):
                # for key in ("a", "b"): self._cached.pop(key, None)
                consts = [e.value for e in getattr(st.iter, "elts", []) if isinstance(e, ast.Constant)]
                for s in ast.walk(st):
                    if isinstance(s, ast.Call) and isinstance(s.func, ast.Attribute) and s.func.attr == "pop" \
                            and _is_cached(s.func.value) and s.args and isinstance(s.args[0], ast.Name):
                        eff["pops"].extend({"key": c, "g": g} for c in consts)
                visit(st.body, none_p, flag, g=g)
                continue
            if isinstance(st, (ast.With, ast.Try)):
                visit(getattr(st, "body", []), none_p, flag, g=g)
                continue
            # calls anywhere in the statement
            for n in ast.walk(st):
                if isinstance(n, ast.Call) and isinstance(n.func, ast.Attribute):
                    f = n.func
                    if _is_cached(f.value):
                        if f.attr == "update":
                            for kw in n.keywords:
                                t = [p for p in mi.taint(_names(kw.value)) if p not in none_p]
                                eff["writes"].append({"key": kw.arg, "taint": t, "flag": bool(flag)})
                        elif f.attr == "pop" and n.args and isinstance(n.args[0], ast.Constant):
                            eff["pops"].append({"key": n.args[0].value, "g": g})
                    elif (isinstance(f.value, ast.Name) and f.value.id == "self") or \
                            (isinstance(f.value, ast.Call) and isinstance(f.value.func, ast.Name) and f.value.func.id == "super"):
                        passed = {}
                        for kw in n.keywords:
                            if kw.arg:
                                passed[kw.arg] = [p for p in mi.taint(_names(kw.value)) if p not in none_p]
                        eff["calls"].append({"name": f.attr, "super": not isinstance(f.value, ast.Name), "g": g,
                                             "pos": [[p for p in mi.taint(_names(a)) if p not in none_p] for a in n.args],
                                             "kw": passed})
                elif isinstance(n, ast.Attribute) and _is_self_attr(n) and n.attr in class_props \
                        and isinstance(n.ctx, ast.Load):
                    eff["calls"].append({"name": n.attr, "super": False, "pos": [], "kw": {}, "g": g})
            if isinstance(st, (ast.Assign, ast.AugAssign)):
                targets = st.targets if isinstance(st, ast.Assign) else [st.target]
                for t in targets:
                    if _is_self_attr(t) and t.attr in MEMO_ATTRS:
                        if isinstance(st.value, ast.Constant) and st.value.value is None:
                            eff["memo_reset"].append({"key": t.attr, "g": g})
                        else:
                            tn = [p for p in mi.taint(_names(st.value)) if p not in none_p
                                  and (mi.name, p) not in ORDER_ONLY_PARAMS]
                            eff["memo_set"].append({"attr": t.attr, "taint": tn})
                    elif _is_self_attr(t) and t.attr in STATE_ATTRS:
                        eff["mutates"].append({"key": STATE_ATTRS[t.attr], "g": g})
                    elif isinstance(t, ast.Subscript) and (_is_self_attr(t.value, "idxs_ds") or _is_self_attr(t.value, "_idxs_ds")):
                        eff["mutates"].append({"key": "ds", "g": g})

    visit(mi.node.body, set(), False)
    return eff


# ---------------------------------------------------------------------------------------------
# alias / in-place analysis (C12: a value stored in the cache must never be written in place)
#
# Abstract value of an expression = the set of *origins* it may share memory with:
#   "c:<key>"   the object stored under `self._cached[<key>]` / in the memo attribute `<key>` (`_seq`, `_pit`)
#   "p:<name>"  the object the caller passed as parameter <name> (only used to build summaries of helpers / kernels)
# The analysis is flow-sensitive inside one function (branches are joined, loops iterated twice), follows
# `self.m(...)`, `self.prop`, `super().m(...)` and calls of the library's module-level kernels through *summaries*
# (what the callee may return an alias of, which parameters it writes into, which cached values it writes into),
# and specialises a callee on constant arguments (`self._check_data(x, "strord")` is analysed with name == "strord",
# so `_check_data(x, "data")` is NOT reported to return the cached stream order). It is a may-analysis of aliasing with
# numpy's view semantics hard-wired (tables below); everything it cannot see (containers, closures, getattr, values
# handed out to the user earlier) is outside it - harness/props/c12.py covers that side dynamically.
VIEW_METHODS = {"ravel", "reshape", "view", "squeeze", "transpose", "swapaxes", "diagonal"}
VIEW_ATTRS = {"T", "flat", "real", "imag", "base"}
VIEW_FUNCS = {"asarray", "asanyarray", "atleast_1d", "atleast_2d", "atleast_3d", "ravel", "reshape", "squeeze",
              "transpose", "ascontiguousarray", "asfortranarray", "swapaxes", "broadcast_to", "expand_dims",
              "moveaxis", "rollaxis", "flip", "flipud", "fliplr", "rot90", "diagonal", "nan_to_num_view"}
COPYFALSE_FUNCS = {"array", "astype", "nan_to_num"}      # alias only with copy=False
INPLACE_METHODS = {"fill", "sort", "partition", "put", "itemset", "resize", "setfield", "byteswap_inplace"}
INPLACE_FUNCS = {"copyto", "put", "put_along_axis", "putmask", "place", "fill_diagonal"}   # np.f(dst, ...)
UFUNC_OUT_POS = {**{f: 2 for f in ("add", "subtract", "multiply", "divide", "true_divide", "floor_divide", "maximum",
                                   "minimum", "fmax", "fmin", "power", "mod", "remainder", "logical_and", "logical_or",
                                   "logical_xor", "bitwise_and", "bitwise_or", "bitwise_xor", "hypot", "arctan2",
                                   "greater", "less", "equal", "not_equal", "greater_equal", "less_equal", "take")},
                 **{f: 1 for f in ("negative", "abs", "absolute", "sqrt", "exp", "log", "log10", "log2", "sign", "square",
                                   "logical_not", "invert", "floor", "ceil", "rint", "trunc", "isnan", "isfinite",
                                   "cumsum", "cumprod")},
                 "clip": 3}
MEMO_ARRAYS = {"_seq", "_pit"}     # `_nnodes` is an int
UNK = object()                      # "not a known constant"
NUMPY_NAMES = {"np", "numpy"}


class Val:
    __slots__ = ("o", "c", "prov", "elts")

    def __init__(self, o=frozenset(), c=UNK, prov="", elts=None):
        self.o, self.c, self.prov, self.elts = frozenset(o), c, prov, elts

    def with_prov(self, prov):
        return Val(self.o, self.c, prov if self.o else "", self.elts)


FRESH = Val()


def _join_val(a, b):
    if a is b:
        return a
    c = a.c if (a.c is not UNK and b.c is not UNK and type(a.c) is type(b.c) and a.c == b.c) else UNK
    return Val(a.o | b.o, c, a.prov or b.prov)


def _join_env(a, b):
    if a is None:
        return b
    if b is None:
        return a
    out = {}
    for k in set(a) | set(b):
        out[k] = _join_val(a.get(k, FRESH), b.get(k, FRESH)) if (k in a and k in b) else \
            Val((a.get(k) or b.get(k)).o, UNK, (a.get(k) or b.get(k)).prov)
    return out


def _short(node, n=70):
    try:
        t = ast.unparse(node)
    except Exception:  # noqa: BLE001
        t = "<expr>"
    t = " ".join(t.split())
    return t if len(t) <= n else t[:n - 3] + "..."


def _chain_key(node):
    """`x` / `self.a.b` -> key of the environment, None for anything else"""
    parts = []
    while isinstance(node, ast.Attribute):
        parts.append(node.attr)
        node = node.value
    if isinstance(node, ast.Name):
        parts.append(node.id)
        return ".".join(reversed(parts))
    return None


def _basic_index(ix):
    """True if the subscript is basic indexing for certain (result is a view)"""
    if isinstance(ix, ast.Slice):
        return True
    if isinstance(ix, ast.Constant) and (ix.value is None or ix.value is Ellipsis):
        return True
    if isinstance(ix, ast.Tuple):
        return any(isinstance(e, ast.Slice) or (isinstance(e, ast.Constant) and (e.value is None or e.value is Ellipsis))
                   for e in ix.elts) and all(
            isinstance(e, (ast.Slice, ast.Constant)) or (isinstance(e, ast.UnaryOp) and isinstance(e.operand, ast.Constant))
            for e in ix.elts)
    return False


class Summary:
    def __init__(self):
        self.ret = set()        # origins the return value may alias
        self.pw = {}            # parameter written in place -> description
        self.cw = []            # (cache key, description) written in place


class Library:
    """all module-level functions of the package + import aliases per module"""

    def __init__(self, repo):
        self.funcs, self.alias = {}, {}
        pkg = os.path.join(repo, "pyflwdir")
        for fn in sorted(os.listdir(pkg)):
            if not fn.endswith(".py"):
                continue
            mod = fn[:-3]
            try:
                tree = ast.parse(open(os.path.join(pkg, fn)).read())
            except SyntaxError:
                continue
            self.funcs[mod] = {n.name: n for n in tree.body if isinstance(n, ast.FunctionDef)}
            al = {}
            for n in tree.body:
                if isinstance(n, ast.ImportFrom) and n.level >= 1 or (isinstance(n, ast.ImportFrom) and (n.module or "").startswith("pyflwdir")):
                    src = (n.module or "").replace("pyflwdir.", "").replace("pyflwdir", "")
                    for a in n.names:
                        if not src:
                            al[a.asname or a.name] = ("mod", a.name)
                        else:
                            al[a.asname or a.name] = ("func", src, a.name)
            self.alias[mod] = al

    def resolve(self, mod, func_node):
        """-> (module, FunctionDef) of a called library function, or None"""
        al = self.alias.get(mod, {})
        if isinstance(func_node, ast.Name):
            if func_node.id in self.funcs.get(mod, {}):
                return mod, self.funcs[mod][func_node.id]
            a = al.get(func_node.id)
            if a and a[0] == "func" and a[2] in self.funcs.get(a[1], {}):
                return a[1], self.funcs[a[1]][a[2]]
        elif isinstance(func_node, ast.Attribute) and isinstance(func_node.value, ast.Name):
            a = al.get(func_node.value.id)
            if a and a[0] == "mod" and func_node.attr in self.funcs.get(a[1], {}):
                return a[1], self.funcs[a[1]][func_node.attr]
        return None


class AliasAnalysis:
    def __init__(self, lib, classes, parents, resolve, props_of, modof):
        self.lib, self.classes, self.parents, self.resolve_m, self.props_of, self.modof = lib, classes, parents, resolve, props_of, modof
        self.memo, self.stack = {}, set()

    # -- summaries -------------------------------------------------------------------------
    def summary(self, ctx, fn, consts):
        """ctx = ("m", dyn, cls_def) | ("f", module); consts = {param: python constant}"""
        key = (ctx, fn.name, tuple(sorted((k, repr(v)) for k, v in consts.items())))
        if key in self.memo:
            return self.memo[key]
        if key in self.stack:
            return Summary()            # recursion: optimistic (the outer call sees the effects)
        self.stack.add(key)
        try:
            s = _FnRun(self, ctx, fn, consts).run()
        finally:
            self.stack.discard(key)
        self.memo[key] = s
        return s


def _params_of(fn, skip_self):
    a = fn.args
    pos = [x.arg for x in a.posonlyargs + a.args]
    defaults = {}
    for name, d in zip(reversed(pos), reversed(a.defaults)):
        defaults[name] = d
    for x, d in zip(a.kwonlyargs, a.kw_defaults):
        if d is not None:
            defaults[x.arg] = d
    if skip_self and pos:
        pos = pos[1:]
    return pos, [x.arg for x in a.kwonlyargs], defaults, (a.vararg.arg if a.vararg else None), (a.kwarg.arg if a.kwarg else None)


class _FnRun:
    def __init__(self, an, ctx, fn, consts):
        self.an, self.ctx, self.fn, self.sum = an, ctx, fn, Summary()
        self.is_method = ctx[0] == "m"
        pos, kwo, defaults, va, kw = _params_of(fn, self.is_method)
        self.env = {}
        for p in pos + kwo:
            self.env[p] = Val({"p:" + p}, consts.get(p, UNK), "parameter `%s`" % p)
        for p in (va, kw):
            if p:
                self.env[p] = FRESH

    def run(self):
        self.block(self.fn.body, self.env)
        return self.sum

    # -- recording -------------------------------------------------------------------------
    def write(self, v, what):
        for o in sorted(v.o):
            d = what + (" [%s]" % v.prov if v.prov and not v.prov.startswith("parameter") else "")
            if o.startswith("c:"):
                if (o[2:], d) not in self.sum.cw:
                    self.sum.cw.append((o[2:], d))
            else:
                self.sum.pw.setdefault(o[2:], d)

    # -- constants / tests -----------------------------------------------------------------
    def const(self, e, env):
        if isinstance(e, ast.Constant):
            return e.value
        k = _chain_key(e)
        if k is not None and k in env:
            return env[k].c
        return UNK

    def test(self, t, env):
        """True / False / None (unknown)"""
        if isinstance(t, ast.BoolOp):
            vs = [self.test(v, env) for v in t.values]
            if isinstance(t.op, ast.And):
                return False if any(v is False for v in vs) else (True if all(v is True for v in vs) else None)
            return True if any(v is True for v in vs) else (False if all(v is False for v in vs) else None)
        if isinstance(t, ast.UnaryOp) and isinstance(t.op, ast.Not):
            v = self.test(t.operand, env)
            return None if v is None else (not v)
        if isinstance(t, ast.Compare) and len(t.ops) == 1:
            a, b = self.const(t.left, env), self.const(t.comparators[0], env)
            if a is UNK or b is UNK:
                return None
            op = t.ops[0]
            if isinstance(op, (ast.Is, ast.Eq)):
                return (a is b) if (a is None or b is None) else (type(a) is type(b) and a == b)
            if isinstance(op, (ast.IsNot, ast.NotEq)):
                return (a is not b) if (a is None or b is None) else not (type(a) is type(b) and a == b)
            return None
        c = self.const(t, env)
        if c is UNK:
            return None
        return bool(c)

    def narrow(self, t, positive, env):
        """refine env under the assumption that test `t` evaluates to `positive`"""
        if isinstance(t, ast.BoolOp):
            if (isinstance(t.op, ast.And) and positive) or (isinstance(t.op, ast.Or) and not positive):
                for v in t.values:
                    self.narrow(v, positive, env)
            return
        if isinstance(t, ast.UnaryOp) and isinstance(t.op, ast.Not):
            return self.narrow(t.operand, not positive, env)
        if isinstance(t, ast.Compare) and len(t.ops) == 1 and isinstance(t.comparators[0], ast.Constant) \
                and t.comparators[0].value is None:
            k = _chain_key(t.left)
            isnone = isinstance(t.ops[0], (ast.Is, ast.Eq)) == positive and isinstance(t.ops[0], (ast.Is, ast.Eq, ast.IsNot, ast.NotEq))
            if k is not None and isnone and (isinstance(t.left, ast.Name)):
                env[k] = Val((), None)

    # -- calls ---------------------------------------------------------------------------------
    def callee(self, call, env):
        """-> (ctx, FunctionDef, display name) of a call the analysis can follow, or None"""
        f = call.func
        if self.is_method and isinstance(f, ast.Attribute):
            _, dyn, cls_def = self.ctx
            if isinstance(f.value, ast.Name) and f.value.id == "self":
                cd, mi = self.an.resolve_m(dyn, f.attr)
                if mi is not None and not mi.is_property:
                    return ("m", dyn, cd), mi.node, "self." + f.attr
            if isinstance(f.value, ast.Call) and isinstance(f.value.func, ast.Name) and f.value.func.id == "super":
                cd, mi = self.an.resolve_m(cls_def, f.attr, True)
                if mi is not None:
                    return ("m", dyn, cd), mi.node, "super()." + f.attr
        mod = self.an.modof[self.ctx[2]] if self.is_method else self.ctx[1]
        r = self.an.lib.resolve(mod, f)
        if r is not None:
            return ("f", r[0]), r[1], r[0] + "." + r[1].name
        return None

    def bind(self, call, fn, is_method, env):
        """argument values by callee parameter name"""
        pos, kwo, defaults, va, kw = _params_of(fn, is_method)
        args = {}
        star = any(isinstance(a, ast.Starred) for a in call.args)
        for p, a in zip(pos, call.args):
            if isinstance(a, ast.Starred):
                break               # parameters after `*args` are bound to something unknown
            args[p] = self.val(a, env)
        known = True
        for k in call.keywords:
            if k.arg is None:
                known = False        # **kwargs: unknown parameters may be bound
            elif k.arg in pos or k.arg in kwo:
                args[k.arg] = self.val(k.value, env)
        consts = {}
        for p in pos + kwo:
            if p in args:
                if args[p].c is not UNK:
                    consts[p] = args[p].c
            elif p in defaults and known and not star and isinstance(defaults[p], ast.Constant):
                consts[p] = defaults[p].value
        return args, consts

    def call_summary(self, call, env):
        c = self.callee(call, env)
        if c is None:
            return None
        ctx, fn, disp = c
        args, consts = self.bind(call, fn, ctx[0] == "m", env)
        return self.an.summary(ctx, fn, consts), args, disp

    def subst(self, origins, args):
        out, prov = set(), ""
        for o in origins:
            if o.startswith("p:"):
                v = args.get(o[2:])
                if v is not None:
                    out |= v.o
                    prov = prov or v.prov
            else:
                out.add(o)
        return out, prov

    # -- abstract value of an expression -----------------------------------------------------
    def val(self, e, env):
        if isinstance(e, ast.Constant):
            return Val((), e.value)
        k = _chain_key(e)
        if k is not None and k in env:
            return env[k]
        if isinstance(e, ast.Name):
            return FRESH
        if isinstance(e, ast.Attribute):
            if self.is_method and isinstance(e.value, ast.Name) and e.value.id == "self":
                if e.attr in MEMO_ARRAYS:
                    return Val({"c:" + e.attr}, UNK, "self." + e.attr)
                _, dyn, _cd = self.ctx
                cd, mi = self.an.resolve_m(dyn, e.attr)
                if mi is not None and mi.is_property:
                    s = self.an.summary(("m", dyn, cd), mi.node, {})
                    return Val({o for o in s.ret if o.startswith("c:")}, UNK, "property self." + e.attr)
                return FRESH
            if e.attr in VIEW_ATTRS:
                return self.val(e.value, env)
            return FRESH
        if isinstance(e, ast.Subscript):
            if _is_cached(e.value):
                kk = e.slice.value if isinstance(e.slice, ast.Constant) and isinstance(e.slice.value, str) else "<dynamic>"
                return Val({"c:" + kk}, UNK, _short(e))
            b = self.val(e.value, env)
            if b.elts is not None and isinstance(e.slice, ast.Constant) and isinstance(e.slice.value, int) \
                    and -len(b.elts) <= e.slice.value < len(b.elts):
                return b.elts[e.slice.value]
            return Val(b.o, UNK, b.prov) if (b.o and _basic_index(e.slice)) else FRESH
        if isinstance(e, ast.IfExp):
            t = self.test(e.test, env)
            if t is True:
                return self.val(e.body, env)
            if t is False:
                return self.val(e.orelse, env)
            return _join_val(self.val(e.body, env), self.val(e.orelse, env))
        if isinstance(e, ast.BoolOp):
            v = FRESH
            for x in e.values:
                v = _join_val(v, self.val(x, env))
            return Val(v.o, UNK, v.prov)
        if isinstance(e, ast.NamedExpr):
            return self.val(e.value, env)
        if isinstance(e, (ast.Tuple, ast.List)):
            elts = [self.val(x, env) for x in e.elts]
            o = set()
            for x in elts:
                o |= x.o
            return Val(o, UNK, next((x.prov for x in elts if x.prov), ""), elts)
        if isinstance(e, ast.Starred):
            return self.val(e.value, env)
        if isinstance(e, ast.Call):
            f = e.func
            if isinstance(f, ast.Attribute):
                if _is_cached(f.value):
                    if f.attr in ("get", "setdefault") and e.args:
                        kk = e.args[0].value if isinstance(e.args[0], ast.Constant) and isinstance(e.args[0].value, str) else "<dynamic>"
                        v = Val({"c:" + kk}, UNK, _short(e))
                        for a in e.args[1:]:
                            v = _join_val(v, self.val(a, env))
                        return Val(v.o, UNK, _short(e))
                    return FRESH
                cs = self.call_summary(e, env)
                if cs is not None:
                    s, args, disp = cs
                    o, prov = self.subst(s.ret, args)
                    return Val(o, UNK, _short(e))
                isnp = isinstance(f.value, ast.Name) and f.value.id in NUMPY_NAMES
                copy_false = any(k.arg == "copy" and isinstance(k.value, ast.Constant) and k.value.value is False for k in e.keywords)
                if isnp:
                    if (f.attr in VIEW_FUNCS or (f.attr in COPYFALSE_FUNCS and copy_false)) and e.args:
                        b = self.val(e.args[0], env)
                        return Val(b.o, UNK, b.prov)
                    return FRESH
                if f.attr in VIEW_METHODS or (f.attr in COPYFALSE_FUNCS and copy_false):
                    b = self.val(f.value, env)
                    return Val(b.o, UNK, b.prov)
                return FRESH
            cs = self.call_summary(e, env)
            if cs is not None:
                s, args, disp = cs
                o, prov = self.subst(s.ret, args)
                return Val(o, UNK, _short(e))
            return FRESH
        return FRESH       # arithmetic, comparisons, comprehensions, ... create new objects

    # -- effects of the calls inside one expression --------------------------------------------
    def effects(self, node, env):
        if node is None:
            return
        todo = [node]
        while todo:
            n = todo.pop()
            if isinstance(n, (ast.FunctionDef, ast.Lambda, ast.AsyncFunctionDef, ast.ClassDef)):
                continue
            todo.extend(ast.iter_child_nodes(n))
            if not isinstance(n, ast.Call):
                continue
            f = n.func
            fname = _short(f, 50)
            for k in n.keywords:
                if k.arg == "out":
                    self.write(self.val(k.value, env), "`out=%s` of %s(...)" % (_short(k.value, 30), fname))
            cs = None if (isinstance(f, ast.Attribute) and _is_cached(f.value)) else self.call_summary(n, env)
            if cs is not None:
                s, args, disp = cs
                for key, d in s.cw:
                    d2 = "in %s: %s" % (disp, d)
                    if (key, d2) not in self.sum.cw and not any(kk == key and dd.endswith(d) for kk, dd in self.sum.cw):
                        self.sum.cw.append((key, d2))
                for p, d in s.pw.items():
                    if p in args:
                        self.write(args[p], "passed as `%s` to %s, which writes into it (%s)" % (p, disp, d))
                continue
            if isinstance(f, ast.Attribute):
                isnp = isinstance(f.value, ast.Name) and f.value.id in NUMPY_NAMES
                if isnp:
                    if f.attr in INPLACE_FUNCS and n.args:
                        self.write(self.val(n.args[0], env), "np.%s(%s, ...)" % (f.attr, _short(n.args[0], 30)))
                    if f.attr in UFUNC_OUT_POS and len(n.args) > UFUNC_OUT_POS[f.attr]:
                        a = n.args[UFUNC_OUT_POS[f.attr]]
                        self.write(self.val(a, env), "positional out argument `%s` of np.%s" % (_short(a, 30), f.attr))
                elif f.attr == "at" and isinstance(f.value, ast.Attribute) and isinstance(f.value.value, ast.Name) \
                        and f.value.value.id in NUMPY_NAMES and n.args:
                    self.write(self.val(n.args[0], env), "np.%s.at(%s, ...)" % (f.value.attr, _short(n.args[0], 30)))
                elif f.attr in INPLACE_METHODS:
                    self.write(self.val(f.value, env), "in-place method `%s.%s(...)`" % (_short(f.value, 30), f.attr))
                elif f.attr == "byteswap" and any(k.arg == "inplace" for k in n.keywords):
                    self.write(self.val(f.value, env), "in-place method `%s.byteswap(inplace=True)`" % _short(f.value, 30))

    # -- statements ------------------------------------------------------------------------------
    def assign_to(self, t, v, env, text):
        if isinstance(t, (ast.Tuple, ast.List)):
            for i, x in enumerate(t.elts):
                if isinstance(x, ast.Starred):
                    self.assign_to(x.value, Val(v.o, UNK, v.prov), env, text)
                elif v.elts is not None and len(v.elts) == len(t.elts):
                    self.assign_to(x, v.elts[i], env, text)
                else:
                    self.assign_to(x, Val(v.o, UNK, v.prov), env, text)
            return
        if isinstance(t, ast.Subscript):
            self.write(self.val(t.value, env), "subscript assignment `%s = ...`" % _short(t, 40))
            return
        k = _chain_key(t)
        if isinstance(t, ast.Attribute):
            b = self.val(t.value, env)
            if b.o and t.attr in ("shape", "dtype", "strides", "flat", "real", "imag"):
                self.write(b, "attribute assignment `%s = ...`" % _short(t, 40))
                return
            if self.is_method and k is not None and k.startswith("self.") and k.count(".") == 1 and \
                    (t.attr in MEMO_ATTRS or t.attr == "_cached" or t.attr in self.an.props_of(self.ctx[1])):
                return      # memo attributes / properties are resolved by `val`, not tracked as locals
        if k is not None:
            env[k] = v.with_prov(text) if not v.prov or len(text) < 90 else v

    def block(self, stmts, env):
        """returns the environment after the block, None if control never falls through"""
        for st in stmts:
            if env is None:
                return None
            env = self.stmt(st, env)
        return env

    def stmt(self, st, env):
        if isinstance(st, (ast.FunctionDef, ast.AsyncFunctionDef, ast.ClassDef, ast.Import, ast.ImportFrom, ast.Pass,
                           ast.Global, ast.Nonlocal, ast.Break, ast.Continue)):
            return env
        if isinstance(st, ast.Return):
            self.effects(st.value, env)
            if st.value is not None:
                self.sum.ret |= self.val(st.value, env).o
            return None
        if isinstance(st, ast.Raise):
            self.effects(st.exc, env)
            return None
        if isinstance(st, ast.Assign):
            self.effects(st.value, env)
            v = self.val(st.value, env)
            for t in st.targets:
                self.effects(t, env)
                self.assign_to(t, v, env, "%s = %s" % (_short(t, 30), _short(st.value, 60)))
            return env
        if isinstance(st, ast.AnnAssign):
            if st.value is not None:
                self.effects(st.value, env)
                self.assign_to(st.target, self.val(st.value, env), env, "%s = %s" % (_short(st.target, 30), _short(st.value, 60)))
            return env
        if isinstance(st, ast.AugAssign):
            self.effects(st.value, env)
            self.effects(st.target, env)
            t = st.target
            opname = {"Add": "+", "Sub": "-", "Mult": "*", "Div": "/", "FloorDiv": "//", "Mod": "%", "Pow": "**", "BitAnd": "&",
                      "BitOr": "|", "BitXor": "^", "LShift": "<<", "RShift": ">>", "MatMult": "@"}.get(type(st.op).__name__, "?")
            if isinstance(t, ast.Subscript):
                self.write(self.val(t.value, env), "augmented subscript assignment `%s %s= ...`" % (_short(t, 40), opname))
            else:
                # `a op= b` on an ndarray is in place; the name keeps denoting the same object
                self.write(self.val(t, env), "augmented assignment `%s %s= ...`" % (_short(t, 40), opname))
                k = _chain_key(t)
                if k is not None and k in env:
                    env[k] = Val(env[k].o, UNK, env[k].prov)
            return env
        if isinstance(st, ast.Expr):
            self.effects(st.value, env)
            return env
        if isinstance(st, ast.If):
            self.effects(st.test, env)
            t = self.test(st.test, env)
            e1 = e0 = None
            if t is not False:
                e1 = dict(env)
                self.narrow(st.test, True, e1)
                e1 = self.block(st.body, e1)
            if t is not True:
                e0 = dict(env)
                self.narrow(st.test, False, e0)
                e0 = self.block(st.orelse, e0)
            return _join_env(e1, e0)
        if isinstance(st, (ast.For, ast.AsyncFor, ast.While)):
            if isinstance(st, ast.While):
                self.effects(st.test, env)
            else:
                self.effects(st.iter, env)
            cur = dict(env)
            for _ in range(2):
                b = dict(cur)
                if not isinstance(st, ast.While):
                    self.assign_to(st.target, FRESH, b, "")
                b = self.block(st.body, b)
                cur = _join_env(cur, b)
            e2 = self.block(st.orelse, dict(cur)) if st.orelse else cur
            return _join_env(cur, e2)
        if isinstance(st, (ast.With, ast.AsyncWith)):
            for it in st.items:
                self.effects(it.context_expr, env)
                if it.optional_vars is not None:
                    self.assign_to(it.optional_vars, FRESH, env, "")
            return self.block(st.body, env)
        if isinstance(st, ast.Try):
            e1 = self.block(st.body, dict(env))
            alt = _join_env(dict(env), e1)
            outs = [self.block(st.orelse, dict(e1)) if (e1 is not None and st.orelse) else e1]
            for h in st.handlers:
                outs.append(self.block(h.body, dict(alt) if alt is not None else None) if alt is not None else None)
            res = None
            for o in outs:
                res = _join_env(res, o)
            if st.finalbody:
                res = self.block(st.finalbody, res if res is not None else dict(env))
            return res
        if isinstance(st, ast.Delete):
            return env
        if isinstance(st, ast.Assert):
            return env
        # anything else (match, ...): scan for effects, keep the environment
        self.effects(st, env)
        return env


def inplace_analysis(repo, classes, parents, resolve, props_of):
    """(dyn class, method) -> list of {"target": cache key, "via": description} ; plus the kernel summaries used"""
    lib = Library(repo)
    modof = {"Flwdir": "flwdir", "FlwdirRaster": "pyflwdir"}
    an = AliasAnalysis(lib, classes, parents, resolve, props_of, modof)
    out = {}
    for dyn in ("Flwdir", "FlwdirRaster"):
        names = set()
        c = dyn
        while c is not None:
            names |= set(classes[c])
            c = parents[c]
        for name in names:
            cd, mi = resolve(dyn, name)
            s = an.summary(("m", dyn, cd), mi.node, {})
            seen, rows = set(), []
            for key, d in s.cw:
                if (key, d) not in seen:
                    seen.add((key, d))
                    rows.append({"target": key, "via": d})
            out[(dyn, name)] = rows
    kernels = {}
    for (ctx, fname, consts), s in an.memo.items():
        if ctx[0] == "f" and s.pw:
            kernels["%s.%s" % (ctx[1], fname)] = sorted(s.pw)
    return out, kernels


def _must(x, mutations):
    """a pop / reset counts for a mutator only if it executes on every path on which a mutation
    executes: its guard path is a prefix of the guard path of every mutation (no early returns assumed)"""
    return all(m["g"][:len(x["g"])] == x["g"] for m in mutations)


def extract(repo):
    srcs = {"Flwdir": os.path.join(repo, "pyflwdir", "flwdir.py"),
            "FlwdirRaster": os.path.join(repo, "pyflwdir", "pyflwdir.py")}
    classes = {}
    for cname, path in srcs.items():
        tree = ast.parse(open(path).read())
        for n in tree.body:
            if isinstance(n, ast.ClassDef) and n.name == cname:
                ms = {}
                for f in n.body:
                    if isinstance(f, ast.FunctionDef):
                        is_prop = any(isinstance(d, ast.Name) and d.id == "property" for d in f.decorator_list)
                        is_static = any(isinstance(d, ast.Name) and d.id == "staticmethod" for d in f.decorator_list)
                        if not is_static:
                            ms[f.name] = MethodInfo(cname, f.name, f, is_prop)
                classes[cname] = ms
    parents = {"Flwdir": None, "FlwdirRaster": "Flwdir"}

    def resolve(cls, name, from_super=False):
        c = parents[cls] if from_super else cls
        while c is not None:
            if name in classes[c]:
                return c, classes[c][name]
            c = parents[c]
        return None, None

    def props_of(cls):
        out, c = set(), cls
        while c is not None:
            out |= {n for n, m in classes[c].items() if m.is_property}
            c = parents[c]
        return out

    local = {}
    for cls in classes:
        for name, mi in classes[cls].items():
            local[(cls, name)] = analyse_method(mi, props_of("FlwdirRaster"))

    # transitive closure, evaluated in the *dynamic* class (virtual dispatch)
    def closure(dyn, cls_def, name, stack=()):
        key = (cls_def, name)
        eff = local[key]
        out = {"reads": list(eff["reads"]), "writes": list(eff["writes"]), "pops": list(eff["pops"]),
               "memo_set": list(eff["memo_set"]), "memo_reset": list(eff["memo_reset"]),
               "mutates": list(eff["mutates"])}
        for c in eff["calls"]:
            if c["super"]:
                cd, mi = resolve(cls_def, c["name"], from_super=True)
            else:
                cd, mi = resolve(dyn, c["name"])
            if mi is None or (cd, c["name"]) in stack or (cd, c["name"]) == key:
                continue
            sub = closure(dyn, cd, c["name"], stack + (key,))
            # translate callee-parameter taint into caller-parameter taint
            def tr(callee_params_tainted):
                t = set()
                for p in callee_params_tainted:
                    if p in c["kw"]:
                        t.update(c["kw"][p])
                    elif p in mi.params and mi.params.index(p) < len(c["pos"]):
                        t.update(c["pos"][mi.params.index(p)])
                return sorted(t)
            out["reads"] += [{"key": r["key"], "unguarded": tr(r["unguarded"])} for r in sub["reads"]]
            out["writes"] += [{"key": w["key"], "taint": tr(w["taint"]), "flag": w["flag"]} for w in sub["writes"]]
            pre = tuple(("call", c["name"]) + x for x in [()]) if False else c["g"]
            out["pops"] += [{"key": x["key"], "g": pre + (("in", c["name"]),) + x["g"]} for x in sub["pops"]]
            out["memo_set"] += [{"attr": m["attr"], "taint": tr(m["taint"])} for m in sub["memo_set"]]
            out["memo_reset"] += [{"key": x["key"], "g": pre + (("in", c["name"]),) + x["g"]} for x in sub["memo_reset"]]
            out["mutates"] += [{"key": x["key"], "g": pre + (("in", c["name"]),) + x["g"]} for x in sub["mutates"]]
        return out

    try:
        inplace, _kernels = inplace_analysis(repo, classes, parents, resolve, props_of)
    except RecursionError:
        inplace = None
    table = []
    for dyn in ("Flwdir", "FlwdirRaster"):
        names = set()
        c = dyn
        while c is not None:
            names |= set(classes[c])
            c = parents[c]
        for name in sorted(names):
            if name.startswith("__") and name != "__init__":
                continue
            cd, mi = resolve(dyn, name)
            eff = closure(dyn, cd, name)
            public = (not name.startswith("_")) or name == "__init__"
            entry = {
                "cls": dyn, "name": name, "public": public, "params": mi.params,
                "reads": sorted({(r["key"], tuple(r["unguarded"])) for r in eff["reads"]}),
                "writes": sorted({(w["key"], tuple(w["taint"]), w["flag"]) for w in eff["writes"]}),
                "pops": sorted({x["key"] for x in eff["pops"] if _must(x, eff["mutates"])}),
                "cond_pops": sorted({x["key"] for x in eff["pops"] if not _must(x, eff["mutates"])}),
                "memo_set": sorted({(m["attr"], tuple(m["taint"])) for m in eff["memo_set"]}),
                "memo_reset": sorted({x["key"] for x in eff["memo_reset"] if _must(x, eff["mutates"])}),
                "mutates": sorted({x["key"] for x in eff["mutates"]}),
                # in-place writes through a name that may alias a cached value (must be empty, see Entry.coherent)
                "inplace": (inplace[(dyn, name)] if inplace is not None else
                            [{"target": "<unknown>", "via": "alias analysis failed"}]),
            }
            table.append(entry)
    return table


def to_lean(table):
    def s(x):
        # a key the analysis cannot resolve statically (computed key, helper taking the key as a parameter) becomes a
        # name no protocol entry knows: the table is then not Coherent and the obligation `coherent_table` fails
        return '"' + (x if isinstance(x, str) else "<dynamic>").replace('"', "'") + '"'

    def sl(xs):
        return "[" + ", ".join(s(x) for x in xs) + "]"
    out = ["/-! GENERATED by harness/extract_cache.py from /repo (flwdir.py, pyflwdir.py) - do not edit. -/",
           "namespace Pf.Generated", "",
           "structure CacheWrite where", "  key : String", "  taint : List String", "  flagGuarded : Bool", "  deriving DecidableEq, Repr",
           "structure CacheRead where", "  key : String", "  unguarded : List String", "  deriving DecidableEq, Repr",
           "structure MemoSet where", "  attr : String", "  taint : List String", "  deriving DecidableEq, Repr",
           "/-- an in-place write through a name that may alias the value stored under `target` -/",
           "structure InPlace where", "  target : String", "  via : String", "  deriving DecidableEq, Repr",
           "structure MethodEntry where", "  cls : String", "  name : String", "  isPublic : Bool",
           "  reads : List CacheRead", "  writes : List CacheWrite", "  pops : List String",
           "  memoSet : List MemoSet", "  memoReset : List String", "  mutates : List String",
           "  inplace : List InPlace", "  deriving DecidableEq, Repr", "",
           "def cacheTable : List MethodEntry := ["]
    rows = []
    for e in table:
        if not (e["reads"] or e["writes"] or e["pops"] or e["memo_set"] or e["memo_reset"] or e["mutates"]
                or e.get("inplace")):
            continue
        rows.append(
            "  { cls := %s, name := %s, isPublic := %s,\n    reads := [%s],\n    writes := [%s],\n    pops := %s,\n    memoSet := [%s], memoReset := %s, mutates := %s,\n    inplace := [%s] }" % (
                s(e["cls"]), s(e["name"]), "true" if e["public"] else "false",
                ", ".join("{ key := %s, unguarded := %s }" % (s(k), sl(u)) for k, u in e["reads"]),
                ", ".join("{ key := %s, taint := %s, flagGuarded := %s }" % (s(k), sl(t), "true" if f else "false") for k, t, f in e["writes"]),
                sl(e["pops"]),
                ", ".join("{ attr := %s, taint := %s }" % (s(a), sl(t)) for a, t in e["memo_set"]),
                sl(e["memo_reset"]), sl(e["mutates"]),
                ", ".join("{ target := %s, via := %s }" % (s(w["target"]), s(w["via"].replace("\\", "/").replace("\n", " ").replace("--", "- -").replace("/-", "/ -").replace("-/", "- /")))
                          for w in e.get("inplace", []))))
    out.append(",\n".join(rows))
    out.append("]")
    out.append("")
    out.append("end Pf.Generated")
    return "\n".join(out) + "\n"


def generate(gen_dir, write_if_changed):
    from common import REPO
    try:
        table = extract(REPO)
    except Exception as e:  # noqa: BLE001
        # the translator cannot read the caching code any more (it was restructured): the tie is broken, which is for
        # the check to report (broken obligation -> escalated history search), not a crash of the check
        table = [{"cls": "Flwdir", "name": "<extraction failed: %s>" % type(e).__name__, "public": True, "params": [],
                  "reads": [("<unknown>", ["<unknown>"])], "writes": [("<unknown>", ["<unknown>"], False)], "pops": [],
                  "memo_set": [], "memo_reset": [], "mutates": [], "inplace": []}]
    json_path = os.path.join(os.path.dirname(os.path.abspath(__file__)), "..", "lean", "PfVerif", "Generated", "cache_protocol.json")
    changed = write_if_changed(os.path.join(gen_dir, "CacheProtocol.lean"), to_lean(table))
    write_if_changed(os.path.join(gen_dir, "cache_protocol.json"), json.dumps(table, indent=1, default=list) + "\n")
    return changed


if __name__ == "__main__":
    import sys
    sys.path.insert(0, os.path.dirname(os.path.abspath(__file__)))
    from common import REPO
    for e in extract(REPO):
        if e["reads"] or e["writes"] or e["pops"] or e["memo_set"] or e["memo_reset"] or e["mutates"] or e["inplace"]:
            print(e["cls"], e["name"], {k: v for k, v in e.items() if k not in ("cls", "name", "params", "public") and v})
