"""Translator for C12: extract the caching / memoisation protocol of Flwdir and FlwdirRaster from
the source (AST) and emit it as a Lean table (Generated/CacheProtocol.lean).

Per public method / property of each class (inherited methods are resolved against the class they
run in, `super().m()` and `self.m()` / `self.prop` calls are followed transitively):

* cache reads   `self._cached[k]` / `k in self._cached` and the parameters the *uncached* computation
                of the same value depends on that are NOT forced to None by the guard of the read;
* cache writes  `self._cached.update(k=expr)` with the parameters `expr` depends on
                (intra-procedural, flow-insensitive data dependence) that are not neutralised by an
                enclosing `p is None` guard, and whether the write is guarded by `self.cache`;
* cache pops    `self._cached.pop(k, ...)` (also through `for key in (...)`);
* memo attributes (`_seq`, `_nnodes`, `_pit`) set / reset to None, with the same taint information;
* abstract-state mutations: `self.idxs_ds[...] = ...` -> "ds", `self.transform = ` -> "transform",
  `self.latlon = ` -> "latlon".

The extractor is part of the trusted base; harness/props/c12.py cross-checks it dynamically
(the `_cached` key set observed after every operation of a random history must be the predicted one).
"""
import ast
import json
import os

MEMO_ATTRS = {"_seq", "_nnodes", "_pit"}
STATE_ATTRS = {"transform": "transform", "latlon": "latlon"}
ORDER_ONLY_PARAMS = {("order_cells", "method")}  # chooses among valid orders; see Spec in Props/C12.lean


def _names(node):
    return {n.id for n in ast.walk(node) if isinstance(n, ast.Name)}


def _is_self_attr(node, attr=None):
    return (isinstance(node, ast.Attribute) and isinstance(node.value, ast.Name) and node.value.id == "self"
            and (attr is None or node.attr == attr))


def _is_cached(node):
    return _is_self_attr(node, "_cached")


class MethodInfo:
    def __init__(self, cls, name, node, is_property):
        self.cls, self.name, self.node, self.is_property = cls, name, node, is_property
        a = node.args
        self.params = [x.arg for x in a.args[1:]] + [x.arg for x in a.kwonlyargs]
        if a.vararg:
            self.params.append(a.vararg.arg)
        if a.kwarg:
            self.params.append(a.kwarg.arg)
        # local data dependence: var -> set of names it is computed from
        self.deps = {}
        for n in ast.walk(node):
            if isinstance(n, (ast.Assign, ast.AugAssign, ast.AnnAssign)):
                targets = n.targets if isinstance(n, ast.Assign) else [n.target]
                val = n.value
                if val is None:
                    continue
                for t in targets:
                    for nm in _names(t):
                        self.deps.setdefault(nm, set()).update(_names(val))
            elif isinstance(n, ast.For):
                for nm in _names(n.target):
                    self.deps.setdefault(nm, set()).update(_names(n.iter))

    def taint(self, expr_names):
        seen, todo = set(), list(expr_names)
        while todo:
            x = todo.pop()
            if x in seen:
                continue
            seen.add(x)
            todo.extend(self.deps.get(x, ()))
        return sorted(p for p in self.params if p in seen)


def _guard_facts(test, positive):
    """returns (none_params, cache_flag, cached_keys_tested) implied when `test` is `positive`"""
    none_p, flag, keys = set(), False, set()
    conj = []
    if positive:
        conj = test.values if isinstance(test, ast.BoolOp) and isinstance(test.op, ast.And) else [test]
    else:
        # not (a or b) = not a and not b ; otherwise nothing known except single negated atoms
        if isinstance(test, ast.BoolOp) and isinstance(test.op, ast.Or):
            conj = [ast.UnaryOp(op=ast.Not(), operand=v) for v in test.values]
        elif isinstance(test, ast.BoolOp):
            conj = []
        else:
            conj = [ast.UnaryOp(op=ast.Not(), operand=test)]
    for c in conj:
        neg = False
        while isinstance(c, ast.UnaryOp) and isinstance(c.op, ast.Not):
            neg = not neg
            c = c.operand
        if isinstance(c, ast.Compare) and len(c.ops) == 1 and isinstance(c.left, ast.Name) \
                and isinstance(c.comparators[0], ast.Constant) and c.comparators[0].value is None:
            if (isinstance(c.ops[0], ast.Is) and not neg) or (isinstance(c.ops[0], ast.IsNot) and neg):
                none_p.add(c.left.id)
        elif _is_self_attr(c, "cache") and not neg:
            flag = True
        elif isinstance(c, ast.Compare) and len(c.ops) == 1 and isinstance(c.ops[0], ast.In) \
                and isinstance(c.left, ast.Constant) and _is_cached(c.comparators[0]) and not neg:
            keys.add(c.left.value)
    return none_p, flag, keys


def analyse_method(mi, class_props):
    """returns the local effect summary of one method"""
    eff = {"reads": [], "writes": [], "pops": [], "memo_set": [], "memo_reset": [], "mutates": [], "calls": []}

    def visit(stmts, none_p, flag, else_of=None, g=()):
        for st in stmts:
            if isinstance(st, ast.If):
                p1, f1, k1 = _guard_facts(st.test, True)
                p0, f0, _ = _guard_facts(st.test, False)
                # a cache read branch: remember the sibling computation for the unguarded-param rule
                visit(st.body, none_p | p1, flag or f1, else_of=(st, k1, none_p | p1), g=g + ((st.lineno, 1),))
                visit(st.orelse, none_p | p0, flag or f0, g=g + ((st.lineno, 0),))
                if k1:
                    # value computed in the else branch: which params does it depend on?
                    names = set()
                    for s in st.orelse:
                        names |= _names(s)
                    t = [p for p in mi.taint(names) if p not in (none_p | p1)]
                    for k in sorted(k1):
                        eff["reads"].append({"key": k, "unguarded": t})
                continue
            if isinstance(st, ast.For):
                # for key in ("a", "b"): self._cached.pop(key, None)
                consts = [e.value for e in getattr(st.iter, "elts", []) if isinstance(e, ast.Constant)]
                for s in ast.walk(st):
                    if isinstance(s, ast.Call) and isinstance(s.func, ast.Attribute) and s.func.attr == "pop" \
                            and _is_cached(s.func.value) and s.args and isinstance(s.args[0], ast.Name):
                        eff["pops"].extend({"key": c, "g": g} for c in consts)
                visit(st.body, none_p, flag, g=g)
                continue
            if isinstance(st, (ast.With, ast.Try)):
                visit(getattr(st, "body", []), none_p, flag, g=g)
                continue
            # calls anywhere in the statement
            for n in ast.walk(st):
                if isinstance(n, ast.Call) and isinstance(n.func, ast.Attribute):
                    f = n.func
                    if _is_cached(f.value):
                        if f.attr == "update":
                            for kw in n.keywords:
                                t = [p for p in mi.taint(_names(kw.value)) if p not in none_p]
                                eff["writes"].append({"key": kw.arg, "taint": t, "flag": bool(flag)})
                        elif f.attr == "pop" and n.args and isinstance(n.args[0], ast.Constant):
                            eff["pops"].append({"key": n.args[0].value, "g": g})
                    elif (isinstance(f.value, ast.Name) and f.value.id == "self") or \
                            (isinstance(f.value, ast.Call) and isinstance(f.value.func, ast.Name) and f.value.func.id == "super"):
                        passed = {}
                        for kw in n.keywords:
                            if kw.arg:
                                passed[kw.arg] = [p for p in mi.taint(_names(kw.value)) if p not in none_p]
                        eff["calls"].append({"name": f.attr, "super": not isinstance(f.value, ast.Name), "g": g,
                                             "pos": [[p for p in mi.taint(_names(a)) if p not in none_p] for a in n.args],
                                             "kw": passed})
                elif isinstance(n, ast.Attribute) and _is_self_attr(n) and n.attr in class_props \
                        and isinstance(n.ctx, ast.Load):
                    eff["calls"].append({"name": n.attr, "super": False, "pos": [], "kw": {}, "g": g})
            if isinstance(st, (ast.Assign, ast.AugAssign)):
                targets = st.targets if isinstance(st, ast.Assign) else [st.target]
                for t in targets:
                    if _is_self_attr(t) and t.attr in MEMO_ATTRS:
                        if isinstance(st.value, ast.Constant) and st.value.value is None:
                            eff["memo_reset"].append({"key": t.attr, "g": g})
                        else:
                            tn = [p for p in mi.taint(_names(st.value)) if p not in none_p
                                  and (mi.name, p) not in ORDER_ONLY_PARAMS]
                            eff["memo_set"].append({"attr": t.attr, "taint": tn})
                    elif _is_self_attr(t) and t.attr in STATE_ATTRS:
                        eff["mutates"].append({"key": STATE_ATTRS[t.attr], "g": g})
                    elif isinstance(t, ast.Subscript) and (_is_self_attr(t.value, "idxs_ds") or _is_self_attr(t.value, "_idxs_ds")):
                        eff["mutates"].append({"key": "ds", "g": g})

    visit(mi.node.body, set(), False)
    return eff


def _must(x, mutations):
    """a pop / reset counts for a mutator only if it executes on every path on which a mutation
    executes: its guard path is a prefix of the guard path of every mutation (no early returns assumed)"""
    return all(m["g"][:len(x["g"])] == x["g"] for m in mutations)


def extract(repo):
    srcs = {"Flwdir": os.path.join(repo, "pyflwdir", "flwdir.py"),
            "FlwdirRaster": os.path.join(repo, "pyflwdir", "pyflwdir.py")}
    classes = {}
    for cname, path in srcs.items():
        tree = ast.parse(open(path).read())
        for n in tree.body:
            if isinstance(n, ast.ClassDef) and n.name == cname:
                ms = {}
                for f in n.body:
                    if isinstance(f, ast.FunctionDef):
                        is_prop = any(isinstance(d, ast.Name) and d.id == "property" for d in f.decorator_list)
                        is_static = any(isinstance(d, ast.Name) and d.id == "staticmethod" for d in f.decorator_list)
                        if not is_static:
                            ms[f.name] = MethodInfo(cname, f.name, f, is_prop)
                classes[cname] = ms
    parents = {"Flwdir": None, "FlwdirRaster": "Flwdir"}

    def resolve(cls, name, from_super=False):
        c = parents[cls] if from_super else cls
        while c is not None:
            if name in classes[c]:
                return c, classes[c][name]
            c = parents[c]
        return None, None

    def props_of(cls):
        out, c = set(), cls
        while c is not None:
            out |= {n for n, m in classes[c].items() if m.is_property}
            c = parents[c]
        return out

    local = {}
    for cls in classes:
        for name, mi in classes[cls].items():
            local[(cls, name)] = analyse_method(mi, props_of("FlwdirRaster"))

    # transitive closure, evaluated in the *dynamic* class (virtual dispatch)
    def closure(dyn, cls_def, name, stack=()):
        key = (cls_def, name)
        eff = local[key]
        out = {"reads": list(eff["reads"]), "writes": list(eff["writes"]), "pops": list(eff["pops"]),
               "memo_set": list(eff["memo_set"]), "memo_reset": list(eff["memo_reset"]),
               "mutates": list(eff["mutates"])}
        for c in eff["calls"]:
            if c["super"]:
                cd, mi = resolve(cls_def, c["name"], from_super=True)
            else:
                cd, mi = resolve(dyn, c["name"])
            if mi is None or (cd, c["name"]) in stack or (cd, c["name"]) == key:
                continue
            sub = closure(dyn, cd, c["name"], stack + (key,))
            # translate callee-parameter taint into caller-parameter taint
            def tr(callee_params_tainted):
                t = set()
                for p in callee_params_tainted:
                    if p in c["kw"]:
                        t.update(c["kw"][p])
                    elif p in mi.params and mi.params.index(p) < len(c["pos"]):
                        t.update(c["pos"][mi.params.index(p)])
                return sorted(t)
            out["reads"] += [{"key": r["key"], "unguarded": tr(r["unguarded"])} for r in sub["reads"]]
            out["writes"] += [{"key": w["key"], "taint": tr(w["taint"]), "flag": w["flag"]} for w in sub["writes"]]
            pre = tuple(("call", c["name"]) + x for x in [()]) if False else c["g"]
            out["pops"] += [{"key": x["key"], "g": pre + (("in", c["name"]),) + x["g"]} for x in sub["pops"]]
            out["memo_set"] += [{"attr": m["attr"], "taint": tr(m["taint"])} for m in sub["memo_set"]]
            out["memo_reset"] += [{"key": x["key"], "g": pre + (("in", c["name"]),) + x["g"]} for x in sub["memo_reset"]]
            out["mutates"] += [{"key": x["key"], "g": pre + (("in", c["name"]),) + x["g"]} for x in sub["mutates"]]
        return out

    table = []
    for dyn in ("Flwdir", "FlwdirRaster"):
        names = set()
        c = dyn
        while c is not None:
            names |= set(classes[c])
            c = parents[c]
        for name in sorted(names):
            if name.startswith("__") and name != "__init__":
                continue
            cd, mi = resolve(dyn, name)
            eff = closure(dyn, cd, name)
            public = (not name.startswith("_")) or name == "__init__"
            entry = {
                "cls": dyn, "name": name, "public": public, "params": mi.params,
                "reads": sorted({(r["key"], tuple(r["unguarded"])) for r in eff["reads"]}),
                "writes": sorted({(w["key"], tuple(w["taint"]), w["flag"]) for w in eff["writes"]}),
                "pops": sorted({x["key"] for x in eff["pops"] if _must(x, eff["mutates"])}),
                "cond_pops": sorted({x["key"] for x in eff["pops"] if not _must(x, eff["mutates"])}),
                "memo_set": sorted({(m["attr"], tuple(m["taint"])) for m in eff["memo_set"]}),
                "memo_reset": sorted({x["key"] for x in eff["memo_reset"] if _must(x, eff["mutates"])}),
                "mutates": sorted({x["key"] for x in eff["mutates"]}),
            }
            table.append(entry)
    return table


def to_lean(table):
    def s(x):
        # a key the analysis cannot resolve statically (computed key, helper taking the key as a parameter) becomes a
        # name no protocol entry knows: the table is then not Coherent and the obligation `coherent_table` fails
        return '"' + (x if isinstance(x, str) else "<dynamic>").replace('"', "'") + '"'

    def sl(xs):
        return "[" + ", ".join(s(x) for x in xs) + "]"
    out = ["/-! GENERATED by harness/extract_cache.py from /repo (flwdir.py, pyflwdir.py) - do not edit. -/",
           "namespace Pf.Generated", "",
           "structure CacheWrite where", "  key : String", "  taint : List String", "  flagGuarded : Bool", "  deriving DecidableEq, Repr",
           "structure CacheRead where", "  key : String", "  unguarded : List String", "  deriving DecidableEq, Repr",
           "structure MemoSet where", "  attr : String", "  taint : List String", "  deriving DecidableEq, Repr",
           "structure MethodEntry where", "  cls : String", "  name : String", "  isPublic : Bool",
           "  reads : List CacheRead", "  writes : List CacheWrite", "  pops : List String",
           "  memoSet : List MemoSet", "  memoReset : List String", "  mutates : List String", "  deriving DecidableEq, Repr", "",
           "def cacheTable : List MethodEntry := ["]
    rows = []
    for e in table:
        if not (e["reads"] or e["writes"] or e["pops"] or e["memo_set"] or e["memo_reset"] or e["mutates"]):
            continue
        rows.append(
            "  { cls := %s, name := %s, isPublic := %s,\n    reads := [%s],\n    writes := [%s],\n    pops := %s,\n    memoSet := [%s], memoReset := %s, mutates := %s }" % (
                s(e["cls"]), s(e["name"]), "true" if e["public"] else "false",
                ", ".join("{ key := %s, unguarded := %s }" % (s(k), sl(u)) for k, u in e["reads"]),
                ", ".join("{ key := %s, taint := %s, flagGuarded := %s }" % (s(k), sl(t), "true" if f else "false") for k, t, f in e["writes"]),
                sl(e["pops"]),
                ", ".join("{ attr := %s, taint := %s }" % (s(a), sl(t)) for a, t in e["memo_set"]),
                sl(e["memo_reset"]), sl(e["mutates"])))
    out.append(",\n".join(rows))
    out.append("]")
    out.append("")
    out.append("end Pf.Generated")
    return "\n".join(out) + "\n"


def generate(gen_dir, write_if_changed):
    from common import REPO
    try:
        table = extract(REPO)
    except Exception as e:  # noqa: BLE001
        # the translator cannot read the caching code any more (it was restructured): the tie is broken, which is for
        # the check to report (broken obligation -> escalated history search), not a crash of the check
        table = [{"cls": "Flwdir", "name": "<extraction failed: %s>" % type(e).__name__, "public": True, "params": [],
                  "reads": [("<unknown>", ["<unknown>"])], "writes": [("<unknown>", ["<unknown>"], False)], "pops": [],
                  "memo_set": [], "memo_reset": [], "mutates": []}]
    json_path = os.path.join(os.path.dirname(os.path.abspath(__file__)), "..", "lean", "PfVerif", "Generated", "cache_protocol.json")
    changed = write_if_changed(os.path.join(gen_dir, "CacheProtocol.lean"), to_lean(table))
    write_if_changed(os.path.join(gen_dir, "cache_protocol.json"), json.dumps(table, indent=1, default=list) + "\n")
    return changed


if __name__ == "__main__":
    import sys
    sys.path.insert(0, os.path.dirname(os.path.abspath(__file__)))
    from common import REPO
    for e in extract(REPO):
        if e["reads"] or e["writes"] or e["pops"] or e["memo_set"] or e["memo_reset"] or e["mutates"]:
            print(e["cls"], e["name"], {k: v for k, v in e.items() if k not in ("cls", "name", "params", "public") and v})
