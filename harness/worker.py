"""Worker process: executes catalogue operations on the real pyflwdir under the execution mode given
by the environment (NUMBA_DISABLE_JIT / NUMBA_BOUNDSCHECK set by the parent *before* start-up).

usage: worker.py <tasks.json> <results.json> <mode>      mode: plain | guard | errors
tasks: list of {"id", "world", "op", "args", "dtype" (optional)}
"""
import json
import linecache
import os
import re
import signal
import sys
import time
import traceback

HERE = os.path.dirname(os.path.abspath(__file__))
sys.path.insert(0, HERE)
import common  # noqa: E402,F401  (path set-up; honours NUMBA_DISABLE_JIT from the environment)
import numpy as np  # noqa: E402

import catalogue  # noqa: E402


class Timeout(BaseException):   # BaseException: not swallowed by the `except Exception` of ageing / probes
    pass


def _alarm(*_):
    raise Timeout()


# ---------------------------------------------------------------------------------------------
# guard: negative / out-of-range scalar indexing and input mutation (interpreted mode only)
# ---------------------------------------------------------------------------------------------
VIOL = []
_LIT = re.compile(r"\[\s*-?\s*\d+\s*(?:,\s*-?\s*\d+\s*)*\]")


def _literal_neg(line, v):
    """the negative index v is written as a LITERAL in the source line (`path[-1]`, `struct[0, -1]`, `q[0][-2]`).  The
    earlier pattern (any `- <digit>` inside brackets) also accepted computed indices such as `elevtn[imin - 1]` or
    `data[idx_ds - 1]` and so masked a wrapped read (found by a mutant of the C13_bounds2 builder)."""
    for m in _LIT.finditer(line):
        try:
            if v in [int(t.replace(" ", "")) for t in m.group(0)[1:-1].split(",")]:
                return True
        except ValueError:
            pass
    return False


def _check_index(arr, idx, kind):
    items = idx if isinstance(idx, tuple) else (idx,)
    for k, it in enumerate(items):
        if isinstance(it, (int, np.integer)) and not isinstance(it, (bool, np.bool_)):
            v = int(it)
            if v < 0:
                fr = sys._getframe(2)
                fn, ln = fr.f_code.co_filename, fr.f_lineno
                if "pyflwdir" not in fn:
                    return
                line = linecache.getline(fn, ln)
                if _literal_neg(line, v):   # literal negative index such as path[-1]
                    return
                VIOL.append(f"negative index {v} ({kind}) at {os.path.basename(fn)}:{ln}: {line.strip()[:80]}")


class GuardedArray(np.ndarray):
    def __getitem__(self, idx):
        _check_index(self, idx, "read")
        out = np.ndarray.__getitem__(self, idx)
        return out

    def __setitem__(self, idx, val):
        _check_index(self, idx, "write")
        np.ndarray.__setitem__(self, idx, val)

    def __array_finalize__(self, obj):
        pass


class NpProxy:
    """stands in for the module-level `np` of the pyflwdir modules: arrays created inside the kernels
    become GuardedArrays too"""
    _wrap = {"full", "zeros", "ones", "empty", "array", "asarray", "zeros_like", "ones_like", "full_like",
             "empty_like", "where", "arange", "copy", "maximum", "minimum", "unique", "concatenate"}

    def __init__(self, real):
        object.__setattr__(self, "_real", real)

    def __getattr__(self, name):
        v = getattr(self._real, name)
        if name in NpProxy._wrap and callable(v):
            def f(*a, **k):
                r = v(*a, **k)
                if isinstance(r, np.ndarray) and r.ndim >= 1 and type(r) is np.ndarray:
                    return r.view(GuardedArray)
                return r
            return f
        return v


def install_guard():
    import pyflwdir
    mods = ["core", "core_d8", "core_ldd", "core_nextxy", "streams", "basins", "dem", "arithmetics", "subgrid",
            "upscale", "regions", "gis_utils"]
    for m in mods:
        mod = getattr(pyflwdir, m, None) or __import__("pyflwdir." + m, fromlist=[m])
        if hasattr(mod, "np"):
            mod.np = NpProxy(np)


# ---------------------------------------------------------------------------------------------
# API boundary: every array handed to a public method / function is snapshotted at the outermost call and
# compared afterwards (covers arrays the catalogue derives from World.arr, e.g. `W.arr(..) + 1`, tuples of
# coordinate arrays, keyword arguments)
API_MUT = []
_DEPTH = [0]


def _arrays_in(args, kwargs):
    out = []

    def visit(x, tag):
        if isinstance(x, np.ndarray) and x.size:
            out.append((tag, x))
        elif isinstance(x, (tuple, list)) and len(x) <= 4:
            for j, y in enumerate(x):
                visit(y, f"{tag}[{j}]")
    for i, a in enumerate(args):
        visit(a, f"arg{i}")
    for k, v in kwargs.items():
        visit(v, k)
    return out


def _boundary(name, fn):
    import functools

    @functools.wraps(fn)
    def wrapped(*args, **kwargs):
        if _DEPTH[0] > 0:
            return fn(*args, **kwargs)
        arrs = _arrays_in(args[1:] if name.startswith(("Flwdir.", "FlwdirRaster.")) else args, kwargs)
        snaps = [(tag, a, np.array(a, copy=True)) for tag, a in arrs]
        _DEPTH[0] += 1
        try:
            return fn(*args, **kwargs)
        finally:
            _DEPTH[0] -= 1
            for tag, a, c in snaps:
                same = np.array_equal(a, c) or (a.dtype.kind == "f" and np.array_equal(a, c, equal_nan=True))
                if not same:
                    API_MUT.append(f"{name}({tag})")
    return wrapped


def install_boundary():
    import inspect
    import pyflwdir
    from pyflwdir.flwdir import Flwdir
    from pyflwdir.pyflwdir import FlwdirRaster
    for cls in (Flwdir, FlwdirRaster):
        for nm, v in list(vars(cls).items()):
            if nm.startswith("_") or not inspect.isfunction(v):
                continue
            setattr(cls, nm, _boundary(f"{cls.__name__}.{nm}", v))
    for nm in ("from_array", "from_dem"):
        v = getattr(pyflwdir.pyflwdir, nm)
        w = _boundary(nm, v)
        setattr(pyflwdir.pyflwdir, nm, w)
        if getattr(pyflwdir, nm, None) is v:
            setattr(pyflwdir, nm, w)
    for m in ("dem", "gis_utils", "regions", "core_conversion"):
        mod = __import__("pyflwdir." + m, fromlist=[m])
        for nm, v in list(vars(mod).items()):
            if nm.startswith("_") or not inspect.isfunction(v) or getattr(v, "__module__", "") != mod.__name__:
                continue
            setattr(mod, nm, _boundary(f"{m}.{nm}", v))


MUTATORS = {"add_pits", "repair_loops", "order_cells", "set_transform"}


def run_task(t, mode):
    W = catalogue.World(t["world"], dtype=t.get("dtype"))
    opd = catalogue.OPS[t["op"]]
    made = []
    if mode == "guard":
        VIOL.clear()
        API_MUT.clear()
        orig_arr = W.arr

        def arr(key_or_list, dt):
            a = orig_arr(key_or_list, dt)
            made.append((a, a.copy()))
            return a.view(GuardedArray) if a.ndim >= 1 else a
        W.arr = arr
        W.flw._idxs_ds = W.flw._idxs_ds.view(GuardedArray)
    aged = []
    cached_before = {}
    if mode == "guard" and opd["group"] not in ("kernel",) and t.get("age", True):
        # the object the operation runs on has, in half of the tasks, answered other queries before (warm caches)
        import random
        arng = random.Random(hash_task(t))
        if arng.random() < 0.5:
            # the earlier queries run under the same per-call budget: a query that does not return must not stall the
            # worker (it is then simply not counted as history; the operation under test runs on the object as it is)
            signal.signal(signal.SIGALRM, _alarm)
            signal.alarm(int(t.get("timeout", 30)))
            try:
                aged = catalogue.age(W.flw, arng, focus=(t["op"],), loopfree=not t["world"].get("loops", False))
            except Timeout:
                aged = [("<an earlier query did not return within the budget>", {})]
            finally:
                signal.alarm(0)
            VIOL.clear()
            API_MUT.clear()
            del made[:]
        # arrays the object holds for later queries: a query may add entries but must not modify one in place
        cached_before = {k: (v, np.array(v, copy=True)) for k, v in getattr(W.flw, "_cached", {}).items() if isinstance(v, np.ndarray)}
    ds_before = np.array(W.flw.idxs_ds).copy()
    t0 = time.time()
    signal.signal(signal.SIGALRM, _alarm)
    signal.alarm(int(t.get("timeout", 30)))
    try:
        res = opd["call"](W, t["args"])
        out = {"status": "ok", "result": catalogue.canon(res, W)}
    except Timeout:
        out = {"status": "timeout"}
    except Exception as e:  # noqa: BLE001
        msg = str(e)
        out = {"status": "exc", "exc": type(e).__name__, "module": type(e).__module__, "msg": msg.splitlines()[0][:300] if msg else "",
               "tb": traceback.format_exc()[-600:]}
    finally:
        signal.alarm(0)
    out["wall"] = round(time.time() - t0, 4)
    if mode == "guard":
        out["guard"] = list(VIOL)[:5]
        mutated = [i for i, (a, c) in enumerate(made)
                   if not (np.array_equal(a, c) or (a.dtype.kind == "f" and np.array_equal(a, c, equal_nan=True)))]
        out["inputs_mutated"] = mutated + sorted(set(API_MUT))
        if (t["op"] not in MUTATORS or t["op"] == "derived_objects") and not np.array_equal(ds_before, np.array(W.flw.idxs_ds)):
            out["object_mutated"] = True
        if t["op"] not in MUTATORS:
            out["cache_mutated"] = sorted(k for k, (v, c) in cached_before.items()
                                          if not (np.array_equal(v, c) or (v.dtype.kind == "f" and np.array_equal(v, c, equal_nan=True))))
        if out.get("status") == "ok" and opd["group"] not in ("kernel",) and t.get("age", True):
            signal.alarm(int(t.get("timeout", 30)))
            try:
                out["state_diverged"] = twin_diff(W)
            except Timeout:
                out["state_diverged"] = ["a probe query did not return within the budget"]
            finally:
                signal.alarm(0)
        out["aged"] = [a[0] for a in aged]
    return out


def hash_task(t):
    import hashlib
    return int(hashlib.sha1(json.dumps([t["world"]["ds"], t["op"], t["args"]], sort_keys=True, default=str).encode()).hexdigest()[:12], 16)


PROBES = ["rank", "idxs_pit", "nnodes", "idxs_us_main", "n_upstream", "distnc", "mask"]


def twin_diff(W):
    """public state of the object after the operation vs a freshly constructed object holding the same network,
    transform and settings: every probe must agree (a query leaves no trace; after a mutator everything reflects
    the new network)"""
    from pyflwdir.pyflwdir import FlwdirRaster
    from pyflwdir.flwdir import Flwdir
    f = W.flw
    _DEPTH[0] += 1   # probes are not API-boundary calls of the operation under test
    try:
        if W.w["cls"] == "raster":
            g = FlwdirRaster(np.array(f.idxs_ds).copy(), f.shape, f.ftype, transform=f.transform, latlon=f.latlon, cache=True)
            probes = PROBES + ["area"]
        else:
            g = Flwdir(np.array(f.idxs_ds).copy(), cache=True)
            probes = list(PROBES)
        loops = W.w.get("loops", False)
        bad = []
        for p in probes:
            if loops and p in ("idxs_us_main", "distnc"):
                continue
            try:
                a, b = catalogue.canon(getattr(f, p), W), catalogue.canon(getattr(g, p), W)
            except Exception as e:  # noqa: BLE001
                bad.append(f"{p}: raised {type(e).__name__}")
                continue
            if a != b and not catalogue.floats_close32(a, b):
                bad.append(p)
        for nm, call in (("stream_order()", lambda o: o.stream_order()), ("upstream_area()", lambda o: o.upstream_area()),
                         ("stream_order(classic)", lambda o: o.stream_order(type="classic"))):
            try:
                a, b = catalogue.canon(call(f), W), catalogue.canon(call(g), W)
            except Exception as e:  # noqa: BLE001
                bad.append(f"{nm}: raised {type(e).__name__}")
                continue
            if a != b and not catalogue.floats_close32(a, b):
                bad.append(nm)
        return bad
    finally:
        _DEPTH[0] -= 1


def run_errors(t):
    W = catalogue.World(t["world"])
    res = []
    for name, fn, want in catalogue.error_cases(W):
        try:
            fn()
            got = "returns"
        except Exception as e:  # noqa: BLE001
            got = type(e).__name__ if type(e).__module__ == "builtins" else type(e).__module__ + "." + type(e).__name__
        res.append({"case": name, "want": want, "got": got})
    return {"status": "ok", "errors": res}


def main():
    tasks = json.load(open(sys.argv[1]))
    mode = sys.argv[3]
    if mode == "guard":
        install_guard()
        install_boundary()
    results = {}
    for t in tasks:
        try:
            results[t["id"]] = run_errors(t) if mode == "errors" else run_task(t, mode)
        except Exception as e:  # world construction failed etc.
            results[t["id"]] = {"status": "harness-exc", "exc": type(e).__name__, "msg": str(e)[:300], "tb": traceback.format_exc()[-800:]}
    json.dump(results, open(sys.argv[2], "w"))


if __name__ == "__main__":
    main()
