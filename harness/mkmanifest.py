"""Regenerate MANIFEST.json from harness/levels.json + the list of built property checks."""
import json, os
HERE = os.path.dirname(os.path.abspath(__file__))
VERIF = os.path.dirname(HERE)
levels = {f[:-5]: json.load(open(os.path.join(HERE, "levels", f))) for f in os.listdir(os.path.join(HERE, "levels")) if f.endswith(".json")}
props = [json.loads(l) for l in open(os.path.join(VERIF, "properties.jsonl"))]
checks, na = [], []
for p in props:
    pid = p["id"]
    lv = levels.get(pid)
    built = lv is not None and os.path.exists(os.path.join(HERE, "props", pid.lower() + ".py")) \
        and os.path.exists(os.path.join(VERIF, "lean", "PfVerif", "Props", pid + ".lean"))
    if not built:
        na.append({"property_id": pid, "reason": (lv or {}).get("na_reason", "check not built yet (work in progress; Lean 4 proof is applicable, see DESIGN.md section 6)")})
        continue
    checks.append({
        "property_id": pid,
        "quick_cmd": f"./check quick {pid}",
        "thorough_cmd": f"./check thorough {pid}",
        "evidence_file": f"evidence/{pid}.json",
        "replay_cmd_template": f"./check quick {pid} --replay {{path}}",
        "engine": "lean4-proof+correspondence",
        "level_claimed": {"category": lv["level"], "text": lv.get("text", ""), "design_ref": lv.get("design_ref", f"DESIGN.md section 6 ({pid})")},
        "level_note": lv.get("note", "; ".join(lv.get("assumptions", []) + lv.get("trusted_base", []))),
        "technique": lv.get("technique", "Lean 4 theorems about an executable model + differential correspondence with the Python implementation"),
    })
m = {
    "version": 1,
    "setup_cmd": "./setup.sh",
    "hooks": {"guard": "PYFLWDIR_VERIF", "enable": "no source hooks are needed: checks import /repo's working tree directly (PYTHONPATH) and observe public behaviour",
              "baseline_off_cmd": "cd /repo && /venv/bin/python -m pytest -ra -q -p no:cacheprovider --timeout=900", "source_commits": [], "add_only": True},
    "engines": [{"name": "lean4-proof+correspondence", "path": "lean/", "serves_properties": [c["property_id"] for c in checks],
                 "kind_free_text": "Lean 4.33 theorems (lake project PfVerif, core Lean + single Mathlib modules in proof files) about hand-written executable models; tables regenerated from /repo each run (harness/extract.py); compiled model driver compared with the real implementation in-process (harness/props/*.py)"}],
    "checks": checks,
    "not_applicable": na,
    "notes": "See DESIGN.md. quick = incremental lake build + axiom audit + a few hundred correspondence cases; thorough = + leanchecker + thousands of cases + exhaustive tiny universes.",
}
json.dump(m, open(os.path.join(VERIF, "MANIFEST.json"), "w"), indent=1)
print(f"MANIFEST: {len(checks)} checks, {len(na)} not claimed")
