#!/bin/sh
# offline setup: regenerate tables from /repo, build all Lean theorems and the model driver
cd "$(dirname "$0")" || exit 1
/venv/bin/python harness/extract.py || exit 1
/venv/bin/python harness/genops.py || exit 1
cd lean && lake build 2>&1 | tail -5
test -x .lake/build/bin/pfdriver
